// C17 — Target config loads are monotonic and announced as exact diffs.
//
// Replay monitor, one goroutine. The real target.Config is driven with
// sequences of configurations; the only things observed are what a user of the
// package can observe: the return value of Load / NewConfigWithBase, the
// Handler.Add/Update/Delete invocations and Config.Current().
//
// Oracle (written from the property statement, not from handleDiffs):
//   - a shadow map name -> (target settings, request content) is driven ONLY by
//     the handler calls (Add for an absent name, Update/Delete for a present one);
//   - whether a load is acceptable is recomputed independently: the documented
//     conditions of Validate hold and the revision is strictly greater than the
//     revision of the current configuration (any revision when there is none);
//   - acceptable   => nil error, shadow == {name -> (target, requests[target.request])}
//     of the loaded configuration, Current() equals the loaded configuration,
//     no call for a target whose settings and resolved request are unchanged;
//   - unacceptable => error, no handler call, Current() unchanged;
//   - the caller's configuration object is never modified, and Current() hands
//     out a copy (scribbling over it changes nothing).
//
// Equality of settings / requests is equality of the deterministic wire
// encoding (nil is distinct from an empty message), i.e. an equality notion
// that does not go through proto.Equal, which the code under test uses; the two
// notions are cross-checked and a disagreement is reported as inconclusive.
package main

import (
	"encoding/json"
	"fmt"
	"math"
	"math/rand"
	"sort"
	"strconv"
	"strings"

	"google.golang.org/protobuf/encoding/prototext"
	"google.golang.org/protobuf/proto"

	gpb "github.com/openconfig/gnmi/proto/gnmi"
	tpb "github.com/openconfig/gnmi/proto/target"
	"github.com/openconfig/gnmi/target"

	"verif/internal/vlib"
)

// ---------------------------------------------------------------------------
// Descriptors: the JSON-able form of a generated configuration (witness,
// hashing, mutation). The oracle never looks at descriptors; it judges the
// protobuf objects that are actually passed to the code under test.

type reqD struct {
	Kind     string   `json:"kind"` // sub, poll, empty
	Paths    []string `json:"paths,omitempty"`
	Mode     int      `json:"mode,omitempty"` // SubscriptionList.Mode
	Interval uint64   `json:"interval,omitempty"`
	Origin   string   `json:"origin,omitempty"`
}

type credD struct {
	User string `json:"user,omitempty"`
	Pass string `json:"pass,omitempty"`
	ID   string `json:"id,omitempty"`
}

type tgtD struct {
	Nil    bool              `json:"nil,omitempty"` // map value is a nil *Target
	Addrs  []string          `json:"addrs,omitempty"`
	Req    string            `json:"req"`
	Cred   *credD            `json:"cred,omitempty"`
	Meta   map[string]string `json:"meta,omitempty"`
	Dialer string            `json:"dialer,omitempty"`
}

type cfgD struct {
	Nil  bool              `json:"nil,omitempty"` // the configuration itself is nil
	Rev  int64             `json:"rev"`
	ID   string            `json:"id,omitempty"`
	Meta map[string]string `json:"meta,omitempty"`
	Req  map[string]reqD   `json:"req,omitempty"`
	Tgt  map[string]tgtD   `json:"tgt,omitempty"`
}

func (d reqD) build() *gpb.SubscribeRequest {
	switch d.Kind {
	case "empty":
		return &gpb.SubscribeRequest{}
	case "poll":
		return &gpb.SubscribeRequest{Request: &gpb.SubscribeRequest_Poll{Poll: &gpb.Poll{}}}
	}
	sl := &gpb.SubscriptionList{Mode: gpb.SubscriptionList_Mode(d.Mode)}
	if d.Origin != "" {
		sl.Prefix = &gpb.Path{Origin: d.Origin}
	}
	for _, p := range d.Paths {
		path := &gpb.Path{}
		for _, e := range strings.Split(p, "/") {
			path.Elem = append(path.Elem, &gpb.PathElem{Name: e})
		}
		sl.Subscription = append(sl.Subscription, &gpb.Subscription{Path: path, SampleInterval: d.Interval})
	}
	return &gpb.SubscribeRequest{Request: &gpb.SubscribeRequest_Subscribe{Subscribe: sl}}
}

func copyMeta(m map[string]string) map[string]string {
	if m == nil {
		return nil
	}
	out := make(map[string]string, len(m))
	for k, v := range m {
		out[k] = v
	}
	return out
}

func (d tgtD) build() *tpb.Target {
	if d.Nil {
		return nil
	}
	t := &tpb.Target{Addresses: append([]string(nil), d.Addrs...), Request: d.Req, Meta: copyMeta(d.Meta), Dialer: d.Dialer}
	if d.Cred != nil {
		t.Credentials = &tpb.Credentials{Username: d.Cred.User, Password: d.Cred.Pass, PasswordId: d.Cred.ID}
	}
	return t
}

func (d *cfgD) build() *tpb.Configuration {
	if d == nil || d.Nil {
		return nil
	}
	c := &tpb.Configuration{Revision: d.Rev, InstanceId: d.ID, Meta: copyMeta(d.Meta)}
	if len(d.Req) > 0 {
		c.Request = map[string]*gpb.SubscribeRequest{}
		for k, r := range d.Req {
			c.Request[k] = r.build()
		}
	}
	if len(d.Tgt) > 0 {
		c.Target = map[string]*tpb.Target{}
		for k, t := range d.Tgt {
			c.Target[k] = t.build()
		}
	}
	return c
}

func (d tgtD) clone() tgtD {
	o := d
	o.Addrs = append([]string(nil), d.Addrs...)
	o.Meta = copyMeta(d.Meta)
	if d.Cred != nil {
		c := *d.Cred
		o.Cred = &c
	}
	return o
}

func (d reqD) clone() reqD {
	o := d
	o.Paths = append([]string(nil), d.Paths...)
	return o
}

func (d *cfgD) clone() cfgD {
	o := cfgD{Nil: d.Nil, Rev: d.Rev, ID: d.ID, Meta: copyMeta(d.Meta), Req: map[string]reqD{}, Tgt: map[string]tgtD{}}
	for k, r := range d.Req {
		o.Req[k] = r.clone()
	}
	for k, t := range d.Tgt {
		o.Tgt[k] = t.clone()
	}
	return o
}

// ---------------------------------------------------------------------------
// Canonical forms and the oracle's notion of "same".

var detMarshal = proto.MarshalOptions{Deterministic: true}

var crossTick int64

var eqDisagree int64 // wire equality vs proto.Equal disagreed (self-check of the oracle's equality notion)

func canonT(t *tpb.Target) string {
	if t == nil {
		return "<nil>"
	}
	b, err := detMarshal.Marshal(t)
	if err != nil {
		return "<err:" + err.Error() + ">"
	}
	return "T" + string(b)
}

func canonR(r *gpb.SubscribeRequest) string {
	if r == nil {
		return "<nil>"
	}
	b, err := detMarshal.Marshal(r)
	if err != nil {
		return "<err:" + err.Error() + ">"
	}
	return "R" + string(b)
}

func sortedKeys[V any](m map[string]V) []string {
	ks := make([]string, 0, len(m))
	for k := range m {
		ks = append(ks, k)
	}
	sort.Strings(ks)
	return ks
}

// canonCfg renders everything a Configuration carries: revision, instance id,
// meta, the request map and the target map. A nil configuration and an empty
// one render alike ("no configuration").
func canonCfg(c *tpb.Configuration) string {
	var b strings.Builder
	if c == nil {
		c = &tpb.Configuration{}
	}
	lp := func(s string) { // length-prefixed: unambiguous for arbitrary bytes
		b.WriteString(strconv.Itoa(len(s)))
		b.WriteByte(':')
		b.WriteString(s)
	}
	b.WriteString("rev=")
	b.WriteString(strconv.FormatInt(c.GetRevision(), 10))
	b.WriteString("|id=")
	lp(c.GetInstanceId())
	b.WriteString("|meta=")
	for _, k := range sortedKeys(c.GetMeta()) {
		lp(k)
		lp(c.Meta[k])
	}
	b.WriteString("|req=")
	for _, k := range sortedKeys(c.GetRequest()) {
		lp(k)
		lp(canonR(c.Request[k]))
	}
	b.WriteString("|tgt=")
	for _, k := range sortedKeys(c.GetTarget()) {
		lp(k)
		lp(canonT(c.Target[k]))
	}
	return b.String()
}

// readable turns a canonical form back into text (only used in explanations).
func readable(canon string) string {
	if canon == "" || canon[0] == '<' {
		return canon
	}
	var m proto.Message = &tpb.Target{}
	if canon[0] == 'R' {
		m = &gpb.SubscribeRequest{}
	}
	if err := proto.Unmarshal([]byte(canon[1:]), m); err != nil {
		return "<undecodable>"
	}
	return txt(m)
}

// cloneCfg is a deep copy that keeps nil targets nil (proto.Clone turns a nil
// map value into an empty message).
func cloneCfg(c *tpb.Configuration) *tpb.Configuration {
	if c == nil {
		return nil
	}
	o := &tpb.Configuration{Revision: c.Revision, InstanceId: c.InstanceId, Meta: copyMeta(c.Meta)}
	if c.Request != nil {
		o.Request = map[string]*gpb.SubscribeRequest{}
		for k, r := range c.Request {
			if r == nil {
				o.Request[k] = nil
			} else {
				o.Request[k] = proto.Clone(r).(*gpb.SubscribeRequest)
			}
		}
	}
	if c.Target != nil {
		o.Target = map[string]*tpb.Target{}
		for k, t := range c.Target {
			if t == nil {
				o.Target[k] = nil
			} else {
				o.Target[k] = proto.Clone(t).(*tpb.Target)
			}
		}
	}
	return o
}

func txt(m proto.Message) string {
	return prototext.MarshalOptions{Multiline: false}.Format(m)
}

// invalidReason recomputes the documented validity conditions: every target has
// a non-empty name, a configuration, at least one address, a non-empty request
// name, and that request exists in the configuration's request map.
func invalidReason(c *tpb.Configuration) string {
	for _, n := range sortedKeys(c.GetTarget()) {
		t := c.Target[n]
		switch {
		case n == "":
			return "empty-target-name"
		case t == nil:
			return "nil-target"
		case len(t.GetAddresses()) == 0:
			return "no-address"
		case t.GetRequest() == "":
			return "empty-request-name"
		}
		if _, ok := c.GetRequest()[t.GetRequest()]; !ok {
			return "missing-request"
		}
	}
	return ""
}

// ---------------------------------------------------------------------------
// Monitor.

type mismatch struct{ sig, what string }

type call struct {
	kind, name string
	t, r       string // canonical forms at the time of the call
}

type entry struct{ t, r string }

type held struct {
	obj   *tpb.Configuration
	canon string
	where string
}

type monitor struct {
	noHandlers bool
	shadow     map[string]entry
	cur        *tpb.Configuration // model: snapshot of the last accepted configuration (nil: none)
	curCanon   string
	calls      []call
	helds      []held
	curHeld    int // index in helds of the object of the last accepted load (-1: none)

	// per-sequence outcome
	accepted, rejected, acceptedWithCalls, diffsJudged int
	trace                                              []string
}

var stats = map[string]int64{}

func cnt(k string) { stats[k]++ }

func newMonitor(noHandlers bool) *monitor {
	return &monitor{noHandlers: noHandlers, shadow: map[string]entry{}, curCanon: canonCfg(nil), curHeld: -1}
}

func (m *monitor) handler() target.Handler {
	if m.noHandlers {
		return target.Handler{}
	}
	rec := func(kind string, u target.Update) {
		m.calls = append(m.calls, call{kind: kind, name: u.Name, t: canonT(u.Target), r: canonR(u.Request)})
	}
	return target.Handler{
		Add:    func(u target.Update) { rec("add", u) },
		Update: func(u target.Update) { rec("update", u) },
		Delete: func(name string) { m.calls = append(m.calls, call{kind: "delete", name: name}) },
	}
}

func (m *monitor) callList() string {
	s := make([]string, len(m.calls))
	for i, c := range m.calls {
		s[i] = c.kind + ":" + c.name
	}
	sort.Strings(s)
	return strings.Join(s, ",")
}

// checkHeld verifies that configuration objects handed to the code under test
// have not been modified: after every step the object just passed and the one
// of the last accepted load (which the Config may still reference), at the end
// of a sequence all of them.
func (m *monitor) checkHeld(when string, all bool) *mismatch {
	for i, h := range m.helds {
		if !all && i != len(m.helds)-1 && i != m.curHeld {
			continue
		}
		if got := canonCfg(h.obj); got != h.canon {
			return &mismatch{"caller-config-modified", fmt.Sprintf("the configuration object passed at %s was modified (observed %s): now {%s}", h.where, when, render(h.obj))}
		}
	}
	return nil
}

// checkCurrent compares Current() with the model and then verifies that the
// returned object is a copy: scribbling over it must not change what the next
// Current() reports nor any object of the caller.
func (m *monitor) checkCurrent(c *target.Config, sigDiffers, when string) (mm *mismatch) {
	defer func() {
		if r := recover(); r != nil {
			mm = &mismatch{"panic:current", fmt.Sprintf("Current() panicked %s: %v", when, r)}
		}
	}()
	got := c.Current()
	if g := canonCfg(got); g != m.curCanon {
		return &mismatch{sigDiffers, fmt.Sprintf("%s: Current() = {%s}, expected {%s}", when, render(got), render(m.cur))}
	}
	// Cross-check of the canonical rendering itself (sampled: it is the costly one).
	if crossTick++; crossTick%8 == 0 && m.cur != nil && got != nil && invalidReason(m.cur) == "" && !proto.Equal(got, m.cur) {
		eqDisagree++
	}
	if got != nil {
		cnt("current_copy_scribbled")
	}
	scribble(got)
	again := c.Current()
	if g := canonCfg(again); g != m.curCanon {
		return &mismatch{"current-not-a-copy", fmt.Sprintf("%s: after modifying the object returned by Current(), Current() = {%s}, expected {%s}", when, render(again), render(m.cur))}
	}
	return m.checkHeld(when+" after modifying the object returned by Current()", false)
}

func render(c *tpb.Configuration) string {
	if c == nil {
		return "<none>"
	}
	var b strings.Builder
	fmt.Fprintf(&b, "rev=%d id=%q meta=%v req=[", c.GetRevision(), c.GetInstanceId(), c.GetMeta())
	for _, k := range sortedKeys(c.GetRequest()) {
		if c.Request[k] == nil {
			fmt.Fprintf(&b, "%q:<nil> ", k)
		} else {
			fmt.Fprintf(&b, "%q:{%s} ", k, txt(c.Request[k]))
		}
	}
	b.WriteString("] tgt=[")
	for _, k := range sortedKeys(c.GetTarget()) {
		if c.Target[k] == nil {
			fmt.Fprintf(&b, "%q:<nil> ", k)
		} else {
			fmt.Fprintf(&b, "%q:{%s} ", k, txt(c.Target[k]))
		}
	}
	b.WriteString("]")
	return b.String()
}

// scribble changes every part of a configuration in place, including the
// messages reachable from it (so that a shallow copy is detected too).
func scribble(c *tpb.Configuration) {
	if c == nil {
		return
	}
	c.Revision = math.MaxInt64
	c.InstanceId += "~"
	if c.Meta == nil {
		c.Meta = map[string]string{}
	}
	c.Meta["~"] = "~"
	for _, t := range c.Target {
		if t == nil {
			continue
		}
		for i := range t.Addresses {
			t.Addresses[i] = "~"
		}
		t.Addresses = append(t.Addresses, "~")
		t.Request = "~"
		t.Dialer = "~"
		if t.Credentials == nil {
			t.Credentials = &tpb.Credentials{}
		}
		t.Credentials.Username = "~"
		if t.Meta == nil {
			t.Meta = map[string]string{}
		}
		t.Meta["~"] = "~"
	}
	for _, q := range c.Request {
		if q == nil {
			continue
		}
		if s := q.GetSubscribe(); s != nil {
			s.Mode = gpb.SubscriptionList_POLL
			s.UpdatesOnly = !s.UpdatesOnly
			if s.Prefix != nil {
				s.Prefix.Origin = "~"
			}
			for _, sub := range s.Subscription {
				sub.SampleInterval = 99
				for _, e := range sub.GetPath().GetElem() {
					e.Name = "~"
				}
			}
			s.Subscription = append(s.Subscription, &gpb.Subscription{})
		} else {
			q.Request = &gpb.SubscribeRequest_Subscribe{Subscribe: &gpb.SubscriptionList{UpdatesOnly: true}}
		}
	}
	if ks := sortedKeys(c.Target); len(ks) > 0 {
		delete(c.Target, ks[0])
	}
	if c.Target == nil {
		c.Target = map[string]*tpb.Target{}
	}
	c.Target["~"] = &tpb.Target{Addresses: []string{"~"}, Request: "~"}
	if ks := sortedKeys(c.Request); len(ks) > 0 {
		delete(c.Request, ks[0])
	}
	if c.Request == nil {
		c.Request = map[string]*gpb.SubscribeRequest{}
	}
	c.Request["~"] = &gpb.SubscribeRequest{}
}

// construct creates the Config, with or without a base configuration.
func (m *monitor) construct(useBase bool, base *tpb.Configuration) (c *target.Config, mm *mismatch) {
	defer func() {
		if r := recover(); r != nil {
			mm = &mismatch{"panic:construct", fmt.Sprintf("NewConfigWithBase panicked: %v", r)}
		}
	}()
	if !useBase {
		return target.NewConfig(m.handler()), nil
	}
	snap := cloneCfg(base)
	snapCanon := canonCfg(snap)
	if base != nil {
		m.helds = append(m.helds, held{base, snapCanon, "NewConfigWithBase"})
	}
	why := ""
	if base != nil {
		why = invalidReason(snap)
	}
	c, err := target.NewConfigWithBase(m.handler(), base)
	if mm := m.checkHeld("NewConfigWithBase", false); mm != nil {
		return nil, mm
	}
	if len(m.calls) > 0 {
		return nil, &mismatch{"handler-at-construction", fmt.Sprintf("NewConfigWithBase invoked handlers [%s]; the base configuration is the initial state, not a change", m.callList())}
	}
	if why != "" {
		cnt("base_invalid_" + why)
		if err == nil {
			return nil, &mismatch{"base-accepted-invalid", fmt.Sprintf("NewConfigWithBase accepted an invalid base configuration (%s): {%s}", why, render(snap))}
		}
		m.trace = append(m.trace, "base rejected:"+why)
		return nil, nil
	}
	if err != nil || c == nil {
		return nil, &mismatch{"base-rejected-valid", fmt.Sprintf("NewConfigWithBase rejected a valid base configuration: err=%v, base {%s}", err, render(snap))}
	}
	if base == nil {
		cnt("base_nil")
		m.trace = append(m.trace, "base nil")
	} else {
		cnt("base_valid")
		m.cur, m.curCanon, m.curHeld = snap, snapCanon, len(m.helds)-1
		for _, n := range sortedKeys(snap.Target) {
			t := snap.Target[n]
			r := snap.Request[t.GetRequest()]
			m.shadow[n] = entry{canonT(t), canonR(r)}
		}
		m.trace = append(m.trace, fmt.Sprintf("base rev=%d targets=%d", snap.Revision, len(snap.Target)))
	}
	if mm := m.checkCurrent(c, "base-not-current", "after NewConfigWithBase"); mm != nil {
		return nil, mm
	}
	return c, nil
}

func safeLoad(c *target.Config, cfg *tpb.Configuration) (err error, panicked interface{}) {
	defer func() {
		if r := recover(); r != nil {
			panicked = r
		}
	}()
	return c.Load(cfg), nil
}

func sameMsg(a, b proto.Message, ca, cb string) bool {
	s := ca == cb
	if s != proto.Equal(a, b) {
		eqDisagree++
	}
	return s
}

// load performs one Load on the real Config and judges it.
func (m *monitor) load(c *target.Config, cfg *tpb.Configuration, idx int) *mismatch {
	where := fmt.Sprintf("load %d", idx)
	snap := cloneCfg(cfg)
	snapCanon := canonCfg(snap)
	if cfg != nil {
		m.helds = append(m.helds, held{cfg, snapCanon, where})
	}
	// Independent acceptability.
	reason := ""
	switch {
	case snap == nil:
		reason = "nil-config"
	default:
		if why := invalidReason(snap); why != "" {
			reason = "invalid:" + why
		}
		if m.cur != nil && snap.Revision <= m.cur.Revision {
			rv := "revision-lower"
			if snap.Revision == m.cur.Revision {
				rv = "revision-equal"
			}
			if reason == "" {
				reason = rv
			} else {
				reason += "+" + rv
			}
		}
	}
	m.calls = m.calls[:0]
	err, p := safeLoad(c, cfg)
	if p != nil {
		return &mismatch{"panic:load", fmt.Sprintf("%s panicked: %v; configuration {%s}", where, p, render(snap))}
	}
	if mm := m.checkHeld(where, false); mm != nil {
		return mm
	}

	if reason != "" {
		// Must be rejected, silently, without any effect.
		cnt("rejected_" + reason)
		m.rejected++
		m.trace = append(m.trace, fmt.Sprintf("#%d rev=%d rejected:%s", idx, snap.GetRevision(), reason))
		if err == nil {
			sig := "accepted-invalid"
			if strings.HasPrefix(reason, "revision") {
				sig = "accepted-stale-revision"
			} else if reason == "nil-config" {
				sig = "accepted-nil"
			}
			return &mismatch{sig, fmt.Sprintf("%s returned nil but the configuration is not acceptable (%s; current revision %s): {%s}", where, reason, m.revStr(), render(snap))}
		}
		if len(m.calls) > 0 {
			return &mismatch{"handler-on-rejected-load", fmt.Sprintf("%s was rejected (%v; oracle: %s) but handlers ran: [%s]", where, err, reason, m.callList())}
		}
		return m.checkCurrent(c, "current-changed-by-rejected-load", "after rejected "+where)
	}

	// Must be accepted.
	if err != nil {
		return &mismatch{"rejected-acceptable", fmt.Sprintf("%s returned %q but the configuration is valid and revision %d is strictly greater than the current one (%s): {%s}", where, err, snap.Revision, m.revStr(), render(snap))}
	}
	m.accepted++
	cnt("accepted")
	if m.cur == nil {
		cnt("accepted_first_load")
		if snap.Revision <= 0 {
			cnt("accepted_first_load_nonpositive_revision")
		}
	}
	old := m.cur
	if old == nil {
		old = &tpb.Configuration{}
	}
	// Classify every target of old ∪ new from the two configurations alone.
	unchanged := map[string]bool{}
	changedN := 0
	for _, n := range sortedKeys(snap.Target) {
		nt := snap.Target[n]
		nr := snap.Request[nt.GetRequest()]
		ot, ok := old.Target[n]
		if !ok {
			cnt("diff_target_added")
			changedN++
			continue
		}
		or := old.Request[ot.GetRequest()]
		sameT := sameMsg(ot, nt, canonT(ot), canonT(nt))
		sameR := sameMsg(or, nr, canonR(or), canonR(nr))
		switch {
		case sameT && sameR:
			unchanged[n] = true
			cnt("diff_target_unchanged")
		case sameT:
			cnt("diff_request_content_edited_under_same_name")
			changedN++
		default:
			changedN++
			if ot.GetRequest() != nt.GetRequest() {
				o2, n2 := proto.Clone(ot).(*tpb.Target), proto.Clone(nt).(*tpb.Target)
				o2.Request, n2.Request = "", ""
				only := canonT(o2) == canonT(n2)
				switch {
				case only && sameR:
					cnt("diff_target_repointed_to_equal_content")
				case only:
					cnt("diff_target_repointed_to_other_content")
				default:
					cnt("diff_target_repointed_and_settings_edited")
				}
			} else if sameR {
				cnt("diff_target_settings_edited")
			} else {
				cnt("diff_target_settings_and_request_content_edited")
			}
		}
	}
	for _, n := range sortedKeys(old.Target) {
		if _, ok := snap.Target[n]; !ok {
			cnt("diff_target_removed")
			changedN++
		}
	}
	if m.cur != nil {
		m.diffsJudged++
		// Request-level facts of this diff (for the evidence only).
		for _, k := range sortedKeys(snap.Request) {
			if or, ok := old.Request[k]; ok {
				if canonR(or) != canonR(snap.Request[k]) {
					cnt("diff_request_edited")
				}
			} else {
				cnt("diff_request_added")
			}
		}
		for _, k := range sortedKeys(old.Request) {
			if _, ok := snap.Request[k]; !ok {
				cnt("diff_request_removed")
			}
		}
	}
	m.trace = append(m.trace, fmt.Sprintf("#%d rev=%d accepted targets=%d changed=%d calls=[%s]", idx, snap.Revision, len(snap.Target), changedN, m.callList()))

	if !m.noHandlers {
		if len(m.calls) > 0 {
			m.acceptedWithCalls++
		}
		if changedN == 0 {
			cnt("accepted_without_target_change")
		}
		// Replay the calls onto the shadow.
		for _, cl := range m.calls {
			cnt("handler_" + cl.kind)
			_, present := m.shadow[cl.name]
			switch cl.kind {
			case "add":
				if present {
					return &mismatch{"add-for-present-target", fmt.Sprintf("%s: Add(%q) but that target was already announced and not deleted; calls [%s]", where, cl.name, m.callList())}
				}
				m.shadow[cl.name] = entry{cl.t, cl.r}
			case "update":
				if !present {
					return &mismatch{"update-for-absent-target", fmt.Sprintf("%s: Update(%q) but no such target has been announced; calls [%s]", where, cl.name, m.callList())}
				}
				m.shadow[cl.name] = entry{cl.t, cl.r}
			case "delete":
				if !present {
					return &mismatch{"delete-for-absent-target", fmt.Sprintf("%s: Delete(%q) but no such target has been announced; calls [%s]", where, cl.name, m.callList())}
				}
				delete(m.shadow, cl.name)
			}
			if unchanged[cl.name] {
				return &mismatch{"call-for-unchanged-target", fmt.Sprintf("%s: %s(%q) although the target's settings {%s} and its request %q are unchanged; calls [%s]", where, cl.kind, cl.name, txt(snap.Target[cl.name]), snap.Target[cl.name].GetRequest(), m.callList())}
			}
		}
		stats["unchanged_target_silent"] += int64(len(unchanged))
		// Shadow must now equal the loaded configuration.
		for _, n := range sortedKeys(snap.Target) {
			t := snap.Target[n]
			r := snap.Request[t.GetRequest()]
			e, ok := m.shadow[n]
			if !ok {
				return &mismatch{"replay:target-missing", fmt.Sprintf("%s: target %q {%s} is in the loaded configuration but was never announced; calls of this load [%s]", where, n, txt(t), m.callList())}
			}
			if e.t != canonT(t) {
				return &mismatch{"replay:stale-target-settings", fmt.Sprintf("%s: target %q is {%s} in the loaded configuration but the handler calls announced {%s}; calls of this load [%s]", where, n, txt(t), readable(e.t), m.callList())}
			}
			if e.r != canonR(r) {
				return &mismatch{"replay:stale-request", fmt.Sprintf("%s: target %q uses request %q = {%s} in the loaded configuration but the handler calls announced {%s}; calls of this load [%s]", where, n, t.GetRequest(), txt(r), readable(e.r), m.callList())}
			}
		}
		for _, n := range sortedKeys(m.shadow) {
			if _, ok := snap.Target[n]; !ok {
				return &mismatch{"replay:target-not-deleted", fmt.Sprintf("%s: target %q is not in the loaded configuration but was announced and never deleted; calls of this load [%s]", where, n, m.callList())}
			}
		}
	}
	m.cur, m.curCanon, m.curHeld = snap, snapCanon, len(m.helds)-1
	return m.checkCurrent(c, "current-differs-from-loaded", "after accepted "+where)
}

func (m *monitor) revStr() string {
	if m.cur == nil {
		return "none"
	}
	return fmt.Sprint(m.cur.Revision)
}

// ---------------------------------------------------------------------------
// Running one sequence.

type witness struct {
	UseBase    bool     `json:"use_base"`
	Base       *cfgD    `json:"base,omitempty"`
	NoHandlers bool     `json:"no_handlers,omitempty"`
	Loads      []cfgD   `json:"loads"`
	FailedAt   int      `json:"failed_at_load"` // -1: construction
	Trace      []string `json:"trace"`
}

type outcome struct {
	mm *mismatch
	w  witness
	m  *monitor
}

// runSeq drives one Config. next produces load i given the model state (the
// generator may look at the model's current revision, never at the real code).
func runSeq(useBase bool, base *cfgD, noHandlers bool, next func(i int, m *monitor) *cfgD) outcome {
	m := newMonitor(noHandlers)
	w := witness{UseBase: useBase, Base: base, NoHandlers: noHandlers, FailedAt: -1}
	c, mm := m.construct(useBase, base.build())
	if mm != nil {
		w.Trace = m.trace
		return outcome{mm, w, m}
	}
	if c == nil {
		// Invalid base correctly refused: nothing to drive.
		w.Trace = m.trace
		return outcome{nil, w, m}
	}
	for i := 0; ; i++ {
		d := next(i, m)
		if d == nil {
			break
		}
		w.Loads = append(w.Loads, *d)
		cnt("loads")
		if mm := m.load(c, d.build(), i); mm != nil {
			w.FailedAt = i
			w.Trace = m.trace
			return outcome{mm, w, m}
		}
	}
	w.Trace = m.trace
	if mm := m.checkHeld("at the end of the sequence", true); mm != nil {
		w.FailedAt = len(w.Loads) - 1
		return outcome{mm, w, m}
	}
	return outcome{nil, w, m}
}

func (o outcome) nontrivial() bool {
	m := o.m
	return m.acceptedWithCalls >= 1 && (m.rejected >= 1 || m.accepted >= 2)
}

// ---------------------------------------------------------------------------
// Random generator.

var (
	tNames   = []string{"t1", "t2", "t3", "t4", "t5"}
	rNames   = []string{"r1", "r2", "r3", "r4"}
	addrPool = [][]string{{"h1:1"}, {"h1:1", "h2:2"}, {"h2:2"}, {"h3:3", "h1:1"}, {"h2:2", "h1:1"}, {"h1:1", "h2:2", "h3:3"}}
	metaPool = []map[string]string{nil, nil, nil, {"k": "v"}, {"k": "w"}, {"k": "v", "l": "x"}}
	pathPool = [][]string{{"a"}, {"b"}, {"a/b"}, {"c/d/e"}, {"a", "b"}, {"b", "a"}}
)

func randReq(rng *rand.Rand) reqD {
	switch rng.Intn(14) {
	case 0:
		return reqD{Kind: "poll"}
	case 1:
		return reqD{Kind: "empty"}
	}
	d := reqD{Kind: "sub", Paths: append([]string(nil), pathPool[rng.Intn(len(pathPool))]...)}
	if rng.Intn(4) == 0 {
		d.Mode = 1 + rng.Intn(2)
	}
	if rng.Intn(2) == 0 {
		d.Interval = 10
	}
	if rng.Intn(3) == 0 {
		d.Origin = "oc"
	}
	return d
}

func randCred(rng *rand.Rand) *credD {
	switch x := rng.Intn(10); {
	case x < 5:
		return nil
	case x < 6:
		return &credD{}
	case x < 9:
		return &credD{User: "u", Pass: []string{"p", "q"}[rng.Intn(2)]}
	default:
		return &credD{User: "u", ID: "pid"}
	}
}

func randTgt(rng *rand.Rand, d *cfgD) tgtD {
	t := tgtD{Addrs: append([]string(nil), addrPool[rng.Intn(len(addrPool))]...), Cred: randCred(rng), Meta: copyMeta(metaPool[rng.Intn(len(metaPool))])}
	if rng.Intn(10) < 3 {
		t.Dialer = "tunnel"
	}
	if ks := sortedKeys(d.Req); len(ks) > 0 {
		t.Req = ks[rng.Intn(len(ks))]
	} else {
		t.Req = "r1" // no request to point at: the configuration becomes invalid
	}
	return t
}

func freeName(rng *rand.Rand, pool []string, used func(string) bool) string {
	var free []string
	for _, n := range pool {
		if !used(n) {
			free = append(free, n)
		}
	}
	if len(free) == 0 {
		return ""
	}
	return free[rng.Intn(len(free))]
}

func randCfg(rng *rand.Rand) cfgD {
	d := cfgD{Req: map[string]reqD{}, Tgt: map[string]tgtD{}}
	nr := rng.Intn(4)
	for i := 0; i < nr; i++ {
		d.Req[rNames[rng.Intn(len(rNames))]] = randReq(rng)
	}
	nt := rng.Intn(5)
	if nr == 0 && rng.Intn(4) != 0 {
		nt = 0
	}
	for i := 0; i < nt; i++ {
		d.Tgt[tNames[rng.Intn(len(tNames))]] = randTgt(rng, &d)
	}
	if rng.Intn(4) == 0 {
		d.ID = []string{"i1", "i2"}[rng.Intn(2)]
	}
	d.Meta = copyMeta(metaPool[rng.Intn(len(metaPool))])
	return d
}

func refs(d *cfgD, rname string) []string {
	var out []string
	for _, n := range sortedKeys(d.Tgt) {
		if t := d.Tgt[n]; !t.Nil && t.Req == rname {
			out = append(out, n)
		}
	}
	return out
}

func liveTargets(d *cfgD) []string {
	var out []string
	for _, n := range sortedKeys(d.Tgt) {
		if !d.Tgt[n].Nil {
			out = append(out, n)
		}
	}
	return out
}

// mutate applies one random edit; it returns its label ("" when not applicable).
func mutate(rng *rand.Rand, d *cfgD) string {
	tk := sortedKeys(d.Tgt)
	rk := sortedKeys(d.Req)
	live := liveTargets(d)
	usedT := func(n string) bool { _, ok := d.Tgt[n]; return ok }
	usedR := func(n string) bool { _, ok := d.Req[n]; return ok }
	switch rng.Intn(16) {
	case 0, 1: // add target
		n := freeName(rng, tNames, usedT)
		if n == "" {
			return ""
		}
		d.Tgt[n] = randTgt(rng, d)
		return "add-target"
	case 2: // remove target
		if len(tk) == 0 {
			return ""
		}
		delete(d.Tgt, tk[rng.Intn(len(tk))])
		return "remove-target"
	case 3, 4: // edit one setting of a target
		if len(live) == 0 {
			return ""
		}
		n := live[rng.Intn(len(live))]
		t := d.Tgt[n].clone()
		switch rng.Intn(4) {
		case 0:
			if len(t.Addrs) >= 2 && rng.Intn(2) == 0 {
				// The same next hops in another order: the order is a setting (the
				// first address names the hop the session metadata is built from).
				rev := make([]string, len(t.Addrs))
				for i, a := range t.Addrs {
					rev[len(rev)-1-i] = a
				}
				t.Addrs = rev
			} else {
				t.Addrs = append([]string(nil), addrPool[rng.Intn(len(addrPool))]...)
			}
		case 1:
			t.Cred = randCred(rng)
		case 2:
			t.Meta = copyMeta(metaPool[rng.Intn(len(metaPool))])
		default:
			if t.Dialer == "" {
				t.Dialer = "tunnel"
			} else {
				t.Dialer = ""
			}
		}
		d.Tgt[n] = t
		return "edit-target"
	case 5: // re-point a target to another existing request
		if len(live) == 0 || len(rk) < 2 {
			return ""
		}
		n := live[rng.Intn(len(live))]
		t := d.Tgt[n].clone()
		var others []string
		for _, k := range rk {
			if k != t.Req {
				others = append(others, k)
			}
		}
		if len(others) == 0 {
			return ""
		}
		t.Req = others[rng.Intn(len(others))]
		d.Tgt[n] = t
		return "repoint-target"
	case 6, 7: // edit the content of a request under the same name
		if len(rk) == 0 {
			return ""
		}
		d.Req[rk[rng.Intn(len(rk))]] = randReq(rng)
		return "edit-request"
	case 8: // rename a request
		if len(rk) == 0 {
			return ""
		}
		old := rk[rng.Intn(len(rk))]
		n := freeName(rng, rNames, usedR)
		if n == "" {
			return ""
		}
		d.Req[n] = d.Req[old].clone()
		mode := rng.Intn(4)
		for _, tn := range refs(d, old) {
			if mode == 0 || mode == 3 || (mode == 1 && rng.Intn(2) == 0) {
				t := d.Tgt[tn].clone()
				t.Req = n
				d.Tgt[tn] = t
			}
		}
		if mode == 0 || mode == 2 {
			delete(d.Req, old)
		}
		return []string{"rename-request-all-repointed", "rename-request-some-repointed-old-kept", "rename-request-none-repointed", "copy-request-all-repointed"}[mode]
	case 9: // add a request (fresh content or equal to an existing one)
		n := freeName(rng, rNames, usedR)
		if n == "" {
			return ""
		}
		if len(rk) > 0 && rng.Intn(2) == 0 {
			d.Req[n] = d.Req[rk[rng.Intn(len(rk))]].clone()
		} else {
			d.Req[n] = randReq(rng)
		}
		return "add-request"
	case 10: // remove a request, preferring an unreferenced one
		if len(rk) == 0 {
			return ""
		}
		var unref []string
		for _, k := range rk {
			if len(refs(d, k)) == 0 {
				unref = append(unref, k)
			}
		}
		if len(unref) > 0 && rng.Intn(10) < 7 {
			delete(d.Req, unref[rng.Intn(len(unref))])
			return "remove-unreferenced-request"
		}
		delete(d.Req, rk[rng.Intn(len(rk))])
		return "remove-request"
	case 11: // swap the contents of two requests, optionally swapping the pointers too
		if len(rk) < 2 {
			return ""
		}
		i := rng.Intn(len(rk))
		j := (i + 1 + rng.Intn(len(rk)-1)) % len(rk)
		a, b := rk[i], rk[j]
		d.Req[a], d.Req[b] = d.Req[b], d.Req[a]
		if rng.Intn(2) == 0 {
			ra, rb := refs(d, a), refs(d, b)
			for _, tn := range ra {
				t := d.Tgt[tn].clone()
				t.Req = b
				d.Tgt[tn] = t
			}
			for _, tn := range rb {
				t := d.Tgt[tn].clone()
				t.Req = a
				d.Tgt[tn] = t
			}
			return "swap-request-contents-and-pointers"
		}
		return "swap-request-contents"
	case 12: // instance id / meta only
		if rng.Intn(2) == 0 {
			d.ID = []string{"", "i1", "i2"}[rng.Intn(3)]
		} else {
			d.Meta = copyMeta(metaPool[rng.Intn(len(metaPool))])
		}
		return "edit-config-meta"
	case 13: // make it invalid
		switch rng.Intn(6) {
		case 0:
			if len(live) == 0 {
				return ""
			}
			n := live[rng.Intn(len(live))]
			t := d.Tgt[n].clone()
			t.Addrs = nil
			d.Tgt[n] = t
			return "invalid-no-address"
		case 1:
			if len(live) == 0 {
				return ""
			}
			n := live[rng.Intn(len(live))]
			t := d.Tgt[n].clone()
			t.Req = ""
			d.Tgt[n] = t
			if rng.Intn(2) == 0 {
				// A request stored under the empty name does not make the empty name a valid reference.
				d.Req[""] = randReq(rng)
				return "invalid-empty-request-name-with-empty-key"
			}
			return "invalid-empty-request-name"
		case 2:
			if len(live) == 0 {
				return ""
			}
			n := live[rng.Intn(len(live))]
			t := d.Tgt[n].clone()
			t.Req = "missing"
			d.Tgt[n] = t
			return "invalid-missing-request"
		case 3:
			n := tNames[rng.Intn(len(tNames))]
			d.Tgt[n] = tgtD{Nil: true}
			return "invalid-nil-target"
		case 4:
			d.Tgt[""] = randTgt(rng, d)
			return "invalid-empty-target-name"
		default:
			var referenced []string
			for _, k := range rk {
				if len(refs(d, k)) > 0 {
					referenced = append(referenced, k)
				}
			}
			if len(referenced) == 0 {
				return ""
			}
			delete(d.Req, referenced[rng.Intn(len(referenced))])
			return "invalid-remove-referenced-request"
		}
	case 14: // one target moves to a new name for the same content
		if len(live) == 0 {
			return ""
		}
		n := live[rng.Intn(len(live))]
		t := d.Tgt[n].clone()
		old, ok := d.Req[t.Req]
		if !ok {
			return ""
		}
		nn := freeName(rng, rNames, usedR)
		if nn == "" {
			return ""
		}
		d.Req[nn] = old.clone()
		t.Req = nn
		d.Tgt[n] = t
		return "repoint-to-equal-copy"
	default: // request content changes under its name while one target follows the old content to a new name
		if len(live) == 0 {
			return ""
		}
		n := live[rng.Intn(len(live))]
		t := d.Tgt[n].clone()
		old, ok := d.Req[t.Req]
		if !ok {
			return ""
		}
		nn := freeName(rng, rNames, usedR)
		if nn == "" {
			return ""
		}
		d.Req[nn] = old.clone()
		d.Req[t.Req] = randReq(rng)
		t.Req = nn
		d.Tgt[n] = t
		return "edit-request-and-follow-old-content"
	}
}

// repair removes every cause of invalidity from a descriptor.
func repair(rng *rand.Rand, d *cfgD) {
	delete(d.Tgt, "")
	delete(d.Req, "")
	for _, n := range sortedKeys(d.Tgt) {
		t := d.Tgt[n].clone()
		if t.Nil {
			delete(d.Tgt, n)
			continue
		}
		if len(t.Addrs) == 0 {
			t.Addrs = []string{"h1:1"}
		}
		if t.Req == "" {
			t.Req = "r1"
		}
		if _, ok := d.Req[t.Req]; !ok {
			if t.Req == "missing" {
				t.Req = "r1"
			}
			if _, ok := d.Req[t.Req]; !ok {
				d.Req[t.Req] = randReq(rng)
			}
		}
		d.Tgt[n] = t
	}
}

func descInvalid(d *cfgD) bool {
	if d.Nil {
		return true
	}
	for n, t := range d.Tgt {
		if n == "" || t.Nil || len(t.Addrs) == 0 || t.Req == "" {
			return true
		}
		if _, ok := d.Req[t.Req]; !ok {
			return true
		}
	}
	return false
}

// pickRevision chooses the revision of the next load relative to the model's
// current revision.
func pickRevision(rng *rand.Rand, haveCur bool, cur int64, prevGen int64, lateStep bool) (int64, string) {
	if !haveCur {
		switch x := rng.Intn(20); {
		case x < 8:
			return int64(1 + rng.Intn(5)), "first-positive"
		case x < 12:
			return 0, "first-zero"
		case x < 17:
			return -int64(1 + rng.Intn(5)), "first-negative"
		case x < 18:
			return math.MinInt64, "first-min"
		default:
			return int64(1) << 40, "first-large"
		}
	}
	switch x := rng.Intn(100); {
	case x < 52:
		return cur + 1 + int64(rng.Intn(3)), "greater"
	case x < 68:
		return cur, "equal"
	case x < 80:
		return cur - 1 - int64(rng.Intn(3)), "lower"
	case x < 85:
		return -int64(1 + rng.Intn(5)), "negative-absolute"
	case x < 89:
		return 0, "zero"
	case x < 92:
		return cur + (int64(1) << 40), "much-greater"
	case x < 94:
		return math.MinInt64, "min"
	case x < 95:
		if lateStep {
			return math.MaxInt64, "max"
		}
		return cur + 1, "greater"
	default:
		return prevGen + 1, "previous-generated-plus-one"
	}
}

// ---------------------------------------------------------------------------
// Exhaustive pool.

func exhPool(revs []int64, reduced bool) []cfgD {
	A := reqD{Kind: "sub", Paths: []string{"a"}}
	B := reqD{Kind: "sub", Paths: []string{"a"}, Interval: 10}
	t := func(req string) tgtD { return tgtD{Addrs: []string{"h1:1"}, Req: req} }
	t2 := func(req string) tgtD { return tgtD{Addrs: []string{"h2:2"}, Req: req} }
	R := func(kv ...interface{}) map[string]reqD {
		m := map[string]reqD{}
		for i := 0; i < len(kv); i += 2 {
			m[kv[i].(string)] = kv[i+1].(reqD)
		}
		return m
	}
	T := func(kv ...interface{}) map[string]tgtD {
		m := map[string]tgtD{}
		for i := 0; i < len(kv); i += 2 {
			m[kv[i].(string)] = kv[i+1].(tgtD)
		}
		return m
	}
	type body struct {
		core bool // member of the reduced pool
		c    cfgD
	}
	bodies := []body{
		{true, cfgD{}}, // empty
		{true, cfgD{Req: R("r1", A), Tgt: T("t1", t("r1"))}},                               // one target
		{true, cfgD{Req: R("r1", B), Tgt: T("t1", t("r1"))}},                               // request content changed under the same name
		{true, cfgD{Req: R("r2", A), Tgt: T("t1", t("r2"))}},                               // request renamed, content equal, target re-pointed
		{false, cfgD{Req: R("r1", A), Tgt: T("t1", t("r1"), "t2", t("r1"))}},               // second target on the same request
		{true, cfgD{Req: R("r1", A, "r2", B), Tgt: T("t1", t("r1"), "t2", t("r2"))}},       // two targets, two requests
		{true, cfgD{Req: R("r1", A, "r2", B), Tgt: T("t1", t("r2"), "t2", t("r1"))}},       // pointers swapped
		{true, cfgD{Req: R("r1", B, "r2", A), Tgt: T("t1", t("r1"), "t2", t("r2"))}},       // contents swapped under the same names
		{false, cfgD{Req: R("r1", B, "r2", A), Tgt: T("t1", t("r2"), "t2", t("r1"))}},      // both swapped: resolved content equal, names differ
		{true, cfgD{Req: R("r1", A), Tgt: T("t1", t2("r1"))}},                              // address edited
		{false, cfgD{Req: R("r1", A, "r2", B), Tgt: T("t2", t("r1"))}},                     // other target, unused request
		{false, cfgD{Req: R("r1", A, "r2", B), Tgt: T("t1", t("r1"))}},                     // request added only
		{false, cfgD{ID: "i1", Req: R("r1", A), Tgt: T("t1", t("r1"))}},                    // instance id only
		{true, cfgD{Req: R("r2", A), Tgt: T("t1", t("r1"))}},                               // invalid: missing request
		{true, cfgD{Req: R("r1", A), Tgt: T("t1", tgtD{Req: "r1"})}},                       // invalid: no address
		{false, cfgD{Req: R("r1", A, "", A), Tgt: T("t1", tgtD{Addrs: []string{"h1:1"}})}}, // invalid: empty request name (although a request is stored under "")
		{false, cfgD{Req: R("r1", A), Tgt: T("t1", t("r1"), "t2", tgtD{Nil: true})}},       // invalid: nil target
		{false, cfgD{Req: R("r1", A), Tgt: T("t1", t("r1"), "", t("r1"))}},                 // invalid: empty target name
	}
	var pool []cfgD
	for _, b := range bodies {
		if reduced && !b.core {
			continue
		}
		for _, rv := range revs {
			c := b.c.clone()
			c.Rev = rv
			pool = append(pool, c)
		}
	}
	pool = append(pool, cfgD{Nil: true})
	return pool
}

// ---------------------------------------------------------------------------

func report(r *vlib.Run, mode string, trial int, o outcome) {
	r.Violation(mode, trial, o.mm.sig, fmt.Sprintf("%s  [history: %s]", o.mm.what, strings.Join(o.w.Trace, " ; ")), o.w)
}

func body(r *vlib.Run) {
	// Mode 1: exhaustive small scopes. Every sequence of loads over a pool, once
	// on NewConfig and once with the first element as the base of
	// NewConfigWithBase.
	if r.OnlyTrial < 0 || r.OnlyMode == "exhaustive" {
		type scope struct {
			name           string
			pool           []cfgD
			minLen, maxLen int
		}
		var scopes []scope
		if r.Quick() {
			scopes = []scope{{"full", exhPool([]int64{-1, 1, 2}, false), 1, 3}}
		} else {
			scopes = []scope{
				{"full", exhPool([]int64{-1, 0, 1, 2}, false), 1, 3},
				{"core4", exhPool([]int64{1, 2, 3}, true), 4, 4},
			}
		}
		idx := 0
		var nExh int64
		for _, sc := range scopes {
			pool, P := sc.pool, len(sc.pool)
			for L := sc.minLen; L <= sc.maxLen; L++ {
				total := 1
				for i := 0; i < L; i++ {
					total *= P
				}
				for k := 0; k < total; k++ {
					for variant := 0; variant < 2; variant++ {
						mine := r.Mine(idx)
						idx++
						if !mine {
							continue
						}
						digits := make([]int, L)
						x := k
						for i := L - 1; i >= 0; i-- {
							digits[i] = x % P
							x /= P
						}
						var base *cfgD
						loads := digits
						if variant == 1 {
							b := pool[digits[0]].clone()
							base = &b
							loads = digits[1:]
						}
						o := runSeq(variant == 1, base, false, func(i int, m *monitor) *cfgD {
							if i >= len(loads) {
								return nil
							}
							d := pool[loads[i]].clone()
							return &d
						})
						r.Eval(1)
						nExh++
						if o.mm != nil {
							report(r, "exhaustive", idx-1, o)
							continue
						}
						if o.nontrivial() {
							r.Distinct(vlib.Hash("exh", sc.name, variant, fmt.Sprint(digits)))
						}
						if r.WantSample() && (idx-1)%7919 == 0 && len(o.w.Trace) >= 3 {
							r.Sample(map[string]interface{}{"mode": "exhaustive", "scope": sc.name, "trial": idx - 1, "history": o.w.Trace})
						}
					}
				}
			}
			if r.Shard == 0 {
				r.Count("exhaustive_pool_"+sc.name, int64(P))
				r.Count("exhaustive_max_len_"+sc.name, int64(sc.maxLen))
			}
		}
		r.Count("exhaustive_sequences", nExh)
	}

	// Mode 2: random sequences of 2-12 loads, each produced by mutating an
	// earlier configuration of the sequence.
	r.ForTrials("random", r.N(40000, 1000000), func(trial int, rng *rand.Rand) {
		n := 2 + rng.Intn(11)
		useBase := rng.Intn(4) == 0
		noHandlers := rng.Intn(25) == 0
		var base *cfgD
		if useBase {
			switch x := rng.Intn(10); {
			case x < 2:
				base = &cfgD{Nil: true}
			default:
				b := randCfg(rng)
				if x < 8 {
					repair(rng, &b)
				} else {
					mutate(rng, &b)
				}
				b.Rev, _ = pickRevision(rng, false, 0, 0, false)
				base = &b
			}
		}
		var lastAcc, prev *cfgD
		if base != nil && !base.Nil && !descInvalid(base) {
			lastAcc = base
		}
		var prevRev int64
		accSeen := 0
		ops := map[string]bool{}
		o := runSeq(useBase, base, noHandlers, func(i int, m *monitor) *cfgD {
			// Did the model accept the previous load?
			if m.accepted > accSeen {
				lastAcc, accSeen = prev, m.accepted
			}
			if i >= n {
				return nil
			}
			var d cfgD
			x := rng.Intn(100)
			switch {
			case x < 3:
				d = cfgD{Nil: true}
				ops["nil-config"] = true
			case x < 5:
				d = cfgD{Req: map[string]reqD{}, Tgt: map[string]tgtD{}}
				ops["empty-config"] = true
			case x < 15 || (lastAcc == nil && prev == nil):
				d = randCfg(rng)
				if rng.Intn(3) > 0 {
					repair(rng, &d)
				}
				ops["fresh-config"] = true
			default:
				src := lastAcc
				if src == nil || (prev != nil && !prev.Nil && x < 30) {
					src = prev
				}
				if src == nil || src.Nil {
					d = randCfg(rng)
					repair(rng, &d)
				} else {
					d = src.clone()
				}
				if descInvalid(&d) && rng.Intn(2) == 0 {
					repair(rng, &d)
					ops["repair"] = true
				}
				k := 0
				switch y := rng.Intn(20); {
				case y < 2:
					k = 0
					ops["identical-content"] = true
				case y < 11:
					k = 1
				case y < 16:
					k = 2
				default:
					k = 3 + rng.Intn(2)
				}
				for j := 0; j < k; j++ {
					if op := mutate(rng, &d); op != "" {
						ops[op] = true
					}
				}
			}
			if !d.Nil {
				var how string
				d.Rev, how = pickRevision(rng, m.cur != nil, m.cur.GetRevision(), prevRev, i >= n-2)
				ops["rev-"+how] = true
				prevRev = d.Rev
			}
			prev = &d
			return &d
		})
		r.Eval(1)
		if o.mm != nil {
			report(r, "random", trial, o)
			return
		}
		for op := range ops {
			cnt("gen_" + op)
		}
		if noHandlers {
			cnt("sequences_without_handlers")
		}
		if o.nontrivial() {
			b, _ := json.Marshal(o.w)
			r.Distinct(vlib.Hash("rand", b))
		}
		if r.WantSample() && trial%1013 == 0 {
			r.Sample(map[string]interface{}{"mode": "random", "trial": trial, "use_base": useBase, "history": o.w.Trace})
		}
	})

	for k, v := range stats {
		r.Count(k, v)
	}
	if eqDisagree > 0 {
		for i := int64(0); i < eqDisagree; i++ {
			r.Inconclusive("wire-encoding equality and proto.Equal disagreed on a pair of messages (oracle's equality notion needs review)")
		}
	}
}

func main() {
	vlib.Main(&vlib.Spec{
		ID: "C17",
		Rule: "exhaustive: quick = every sequence of <= 3 loads over a pool of 55 configurations (18 bodies x revisions {-1,1,2} + the nil configuration); thorough = every sequence of <= 3 loads over 73 configurations (revisions {-1,0,1,2}) plus every sequence of exactly 4 loads over a core pool of 31 (10 bodies x {1,2,3} + nil). Bodies: empty, one/two targets, request content changed under the same name, request renamed with equal content and target re-pointed, pointers swapped, contents swapped, both swapped, address edited, request added only, instance id only, and the five kinds of invalid configuration (missing request, no address, empty request name although a request is stored under the empty name, nil target, empty target name). Each sequence is run on NewConfig and again with its first element as the base of NewConfigWithBase; " +
			"random: seeded sequences of 2-12 loads, each produced from the last accepted / the previous / a fresh configuration by 0-4 edits (add/remove/edit target, re-point, edit/rename/copy/add/remove request, swap request contents with or without the pointers, request edited while a target follows the old content to a new name, config meta only, seven ways of invalidating) with revisions greater/equal/lower/negative/zero/min/max/+2^40 relative to the model's current revision, 1 in 4 with a base configuration (valid, invalid or nil), 1 in 25 with no handlers installed. " +
			"A sequence is counted as distinct non-trivial when at least one accepted load produced handler calls and there was also a rejected load or a second accepted load (i.e. the oracle judged an announcement and a gate decision or a real diff), hashed by its configurations.",
		Assumptions: []string{
			"acceptability is recomputed from the documented conditions: every target has a non-empty name, a non-nil configuration, >= 1 address, a non-empty request name that exists in the request map; revision strictly greater than the current configuration's (any revision when there is none; with NewConfigWithBase the base is the current configuration and its targets are the initial set)",
			"'unchanged' = the target message and the request it resolves to have the same deterministic wire encoding in the current and the loaded configuration (cross-checked against proto.Equal; nil is distinct from an empty message)",
			"several handler calls for one changed target are tolerated as long as every Add is for an absent name and every Update/Delete for a present one and the replay converges; no call at all is allowed for an unchanged target",
			"every load passes a fresh configuration object that the caller does not modify afterwards (Load retains the pointer it is given); request map values are non-nil messages, as any parser produces them",
			"single goroutine; handlers do not call back into the Config",
		},
		QuickShards: 8, ThoroughShards: 16,
		MinDistinctQuick: 20000, MinDistinctThorough: 200000,
		Body: body,
	})
}
