package main

// Mode "handlerclose": Close issued from INSIDE the notification handler of a
// bare client ("close when the sync arrives"), one of the moments "while
// streaming" the statement quantifies over. Both Close and Subscribe must
// return. (ReconnectClient is not driven this way: its Close waits for
// Subscribe by contract, and Subscribe is waiting for that very handler.)

import (
	"context"
	"fmt"
	"math/rand"
	"runtime"
	"strings"
	"sync"
	"sync/atomic"
	"time"

	"github.com/openconfig/gnmi/client"

	"verif/internal/vlib"
)

// feedImpl delivers n updates (a sync after the k-th), then blocks until the
// context ends or Close is called.
type feedImpl struct {
	ctx     context.Context
	h       client.NotificationHandler
	closed  chan struct{}
	once    sync.Once
	sent    int
	n, sync int
}

func (f *feedImpl) Subscribe(ctx context.Context, q client.Query) error {
	f.ctx, f.h = ctx, q.NotificationHandler
	return ctx.Err()
}

func (f *feedImpl) Recv() error {
	select {
	case <-f.ctx.Done():
		return f.ctx.Err()
	case <-f.closed:
		return fmt.Errorf("c18: transport closed")
	default:
	}
	if f.sent < f.n {
		f.sent++
		if f.sent == f.sync {
			return f.h(client.Sync{})
		}
		return f.h(client.Update{Path: client.Path{"t", "a", fmt.Sprint(f.sent)}, Val: int64(f.sent), TS: time.Unix(0, int64(f.sent))})
	}
	select {
	case <-f.ctx.Done():
		return f.ctx.Err()
	case <-f.closed:
		return fmt.Errorf("c18: transport closed")
	}
}

func (f *feedImpl) Close() error { f.once.Do(func() { close(f.closed) }); return nil }
func (f *feedImpl) Poll() error  { return nil }

func handlerCloseCase(r *vlib.Run, trial int, rng *rand.Rand) {
	typ := fmt.Sprintf("c18-hclose-%d-%d", trial, atomic.AddInt64(&windowSeq, 1))
	n := 1 + rng.Intn(6)
	syncAt := 1 + rng.Intn(n)
	closeAt := 1 + rng.Intn(n)
	if err := client.Register(typ, func(ctx context.Context, d client.Destination) (client.Impl, error) {
		return &feedImpl{closed: make(chan struct{}), n: n, sync: syncAt}, nil
	}); err != nil {
		panic("c18 harness: " + err.Error())
	}
	var cl client.Client = &client.BaseClient{}
	wrapper := "base"
	if rng.Intn(2) == 0 {
		cl, wrapper = client.New(), "cache"
	}
	delivered := 0
	closeReturned := make(chan struct{})
	var closeOnce sync.Once
	q := client.Query{Addrs: []string{"c18"}, Target: "t", Queries: []client.Path{{"*"}}, Type: client.Stream}
	q.NotificationHandler = func(nf client.Notification) error {
		if _, ok := nf.(client.Connected); ok {
			return nil
		}
		delivered++
		if delivered == closeAt {
			closeOnce.Do(func() {
				cl.Close() // on the handler's own goroutine
				close(closeReturned)
			})
		}
		return nil
	}
	subDone := make(chan struct{})
	go func() {
		defer close(subDone)
		cl.Subscribe(context.Background(), q, typ)
	}()
	r.Eval(1)
	r.Count("handlerclose_"+wrapper, 1)
	beat0 := atomic.LoadInt64(&heartbeat)
	deadline := time.After(grace)
	cd, sd := (<-chan struct{})(closeReturned), (<-chan struct{})(subDone)
	for cd != nil || sd != nil {
		select {
		case <-cd:
			cd = nil
		case <-sd:
			sd = nil
			if cd != nil {
				// Subscribe ended before the handler reached its Close (it cannot: every
				// notification is delivered before the transport blocks) - not judged.
				select {
				case <-closeReturned:
				default:
					r.Inconclusive("handlerclose: Subscribe returned before the handler issued Close")
					return
				}
			}
		case <-deadline:
			buf := make([]byte, 1<<20)
			dump := string(buf[:runtime.Stack(buf, true)])
			beats := atomic.LoadInt64(&heartbeat) - beat0
			var pending []string
			if cd != nil {
				pending = append(pending, "Close")
			}
			if sd != nil {
				pending = append(pending, "Subscribe")
			}
			if beats < int64(grace/beatEvery)/2 || !strings.Contains(dump, "openconfig/gnmi/client") {
				r.Inconclusive("handlerclose: calls pending after the grace period but the stuck state is not attributable")
			} else {
				r.Violation("handlerclose", trial, "close-from-handler-never-returns", fmt.Sprintf("%s still pending %v after Close was called from inside the notification handler of a bare %s client (notification %d of %d, sync at %d); the transport's reads return on Close and on context cancellation",
					strings.Join(pending, " and "), grace, wrapper, closeAt, n, syncAt), map[string]interface{}{"wrapper": wrapper, "close_at": closeAt, "notifications": n, "goroutines": truncateDump(dump)})
			}
			return
		}
	}
	r.Count("handlerclose_both_returned", 1)
	r.Distinct(vlib.Hash("handlerclose", wrapper, n, syncAt, closeAt))
}

func modeHandlerClose(r *vlib.Run) {
	sem := make(chan struct{}, 8)
	var wg sync.WaitGroup
	r.ForTrials("handlerclose", r.N(120, 4000), func(trial int, rng *rand.Rand) {
		if r.NViolations() >= 4 {
			return
		}
		sem <- struct{}{}
		wg.Add(1)
		go func() {
			defer wg.Done()
			defer func() { <-sem }()
			handlerCloseCase(r, trial, rng)
		}()
	})
	wg.Wait()
}
