// C18 — Client Subscribe/Close always terminate; reconnect keeps callback discipline.
//
// Trace-grammar monitor. The real client.BaseClient / client.CacheClient, bare
// or wrapped in the real client.ReconnectClient, are driven through a scripted
// client.Impl registered under a distinct type name per case. Three transports
// sit under the scripted wrapper: a purely scripted one, the repository's own
// client/fake Client, and the real client/gnmi Client (NewFromConn) talking to
// a scripted gNMI server over bufconn. Close (or a context cancellation) is
// issued from another goroutine at a forced position: the scripted Impl (or the
// disconnect / reset callback) parks at that position until the harness has
// entered Close. Every attempt start, NotificationHandler invocation,
// disconnect, reset and the call/return of Subscribe and Close is recorded with
// one global tick and fed to an online state machine.
package main

import (
	"context"
	"encoding/json"
	"errors"
	"fmt"
	"io"
	"math/rand"
	"net"
	"runtime"
	"strconv"
	"strings"
	"sync"
	"sync/atomic"
	"time"

	"google.golang.org/grpc"
	"google.golang.org/grpc/codes"
	"google.golang.org/grpc/credentials/insecure"
	"google.golang.org/grpc/metadata"
	"google.golang.org/grpc/status"
	"google.golang.org/grpc/test/bufconn"

	"github.com/openconfig/gnmi/client"
	fclient "github.com/openconfig/gnmi/client/fake"
	gclient "github.com/openconfig/gnmi/client/gnmi"
	"github.com/openconfig/gnmi/errlist"
	gpb "github.com/openconfig/gnmi/proto/gnmi"

	"verif/internal/vlib"
)

const (
	baseDelay = 10 * time.Millisecond
	maxDelay  = 20 * time.Millisecond
	grace     = 1000 * maxDelay // bounded-progress bound (20 s)
	// One-sided timing: the smallest backoff the library can draw is
	// 0.5 x RetryBaseDelay = 5 ms and time.Sleep never sleeps shorter; load only
	// lengthens the gap. Half of that is demanded.
	minGap    = baseDelay / 4
	beatEvery = 20 * time.Millisecond
	wide      = 16
)

var (
	globalTick int64
	heartbeat  int64

	errScripted   = errors.New("c18: scripted stream failure")
	errClosed     = errors.New("c18: transport closed")
	errAfterBlock = errors.New("c18: blocked read released")
)

// ---------------------------------------------------------------- case description

type msgSpec struct {
	U    int  `json:"u,omitempty"`    // update notifications carried by the message
	D    int  `json:"d,omitempty"`    // delete notifications (gnmi transport only)
	Sync bool `json:"sync,omitempty"` // a sync response (gnmi transport only)
}

type attemptSpec struct {
	Kind string `json:"kind"` // failnew, failsub, err, eof, block
	// failnew / failsub: shape of the error value the transport reports:
	// plain, errlist2, errlist3 (errlist.List with 2-3 causes via Err()), slice2
	// (an error whose type is a []error), empty-errors / empty-slice (aggregate
	// shapes holding no cause), joined (errors.Join).
	Shape string    `json:"error_shape,omitempty"`
	Msgs  []msgSpec `json:"msgs,omitempty"`
	EOF   string    `json:"eof,omitempty"` // scripted transport: io.EOF or ErrStopReading
}

type position struct {
	// never-subscribed, before, timed, attempt-start, in-subscribe, after-msg, blocked,
	// prev-impl-close (inside the previous Impl's Close during a re-Subscribe),
	// ctx-hook (inside a method of the caller's context during Subscribe start),
	// at-disconnect, in-backoff, after-reset (and next-recv for the follow-up
	// Close of a bare client whose first Close did not reach the current Impl).
	Kind    string `json:"kind"`
	Attempt int    `json:"attempt"`
	J       int    `json:"j"`
}

type caseSpec struct {
	Wrapper   string        `json:"wrapper"`   // rc-base, rc-cache, base, cache
	Transport string        `json:"transport"` // scripted, fake, gnmi
	Script    []attemptSpec `json:"script"`
	Pos       position      `json:"close_position"`
	Action    string        `json:"action"` // close, cancel (cancel the Subscribe context, then Close)
	// Action deadline: the Subscribe context carries a deadline (0 = already
	// expired when Subscribe is called); Close is called after Subscribe returned.
	DeadlineMS    int    `json:"deadline_ms,omitempty"`
	ReleaseUS     int    `json:"release_us"`           // delay between "Close entered" and un-parking (-1: Gosched)
	ReleaseAt     string `json:"release_at"`           // entered | returned (bare clients only)
	Buffered      int    `json:"buffered"`             // messages still delivered after the transport saw cancel/Close; -1: all (only a blocking read notices)
	LaxConnect    bool   `json:"lax_connect"`          // New/Subscribe of the transport ignore an already cancelled context
	Hold          bool   `json:"hold"`                 // at the first sight of cancel/Close wait (<= 30 ms) for Close to return before delivering buffered messages
	CloserDelayUS int    `json:"closer_delay_us"`      // non-parking positions: delay between reaching the position and calling Close
	Resub         int    `json:"resubscribes"`         // bare clients: Subscribe calls on the same client object that ended by themselves before the one Close is aimed at
	CtxParent     string `json:"ctx_parent,omitempty"` // ctx-hook: what the caller's custom context wraps (background | cancellable)
}

func (s *caseSpec) rc() bool { return strings.HasPrefix(s.Wrapper, "rc-") }

func (s *caseSpec) attempt(a int) attemptSpec {
	if a < len(s.Script) {
		return s.Script[a]
	}
	return attemptSpec{Kind: "block"}
}

type combo struct {
	Wrapper, Transport, PosKind string
	PosJ                        int // after-msg: 0 first, 1 middle, 2 last; before: 0 Close returned first, 1 concurrent
	Kind                        string
	A                           int
}

var errShapes = []string{"errlist2", "errlist3", "slice2", "empty-errors", "empty-slice", "joined"}

// sliceErr is an error whose type is a []error (errlist treats it specially).
type sliceErr []error

func (s sliceErr) Error() string { return fmt.Sprintf("c18: %d scripted failures", len(s)) }

// emptyErrs is an aggregate error that reports no individual causes.
type emptyErrs struct{}

func (emptyErrs) Error() string   { return "c18: scripted aggregate failure without causes" }
func (emptyErrs) Errors() []error { return nil }

func shapedErr(shape string) error {
	e := func(i int) error { return fmt.Errorf("c18: scripted failure of subscription %d", i) }
	switch shape {
	case "errlist2", "errlist3":
		var l errlist.List
		l.Add(e(1), e(2))
		if shape == "errlist3" {
			l.Add(e(3))
		}
		return l.Err()
	case "slice2":
		return sliceErr{e(1), e(2)}
	case "empty-errors":
		return emptyErrs{}
	case "empty-slice":
		return sliceErr{}
	case "joined":
		return errors.Join(e(1), e(2))
	}
	return errScripted
}

var (
	allKinds = []string{"failnew", "failsub", "err", "eof", "block"}
	endKinds = []string{"failnew", "failsub", "err", "eof"}
)

func compatible(pos, kind string) bool {
	switch pos {
	case "in-subscribe":
		return kind != "failnew"
	case "after-msg":
		return kind == "err" || kind == "eof" || kind == "block"
	case "blocked":
		return kind == "block"
	case "at-disconnect", "in-backoff", "after-reset":
		return kind != "block"
	case "prev-impl-close":
		return kind == "err" || kind == "eof" || kind == "block"
	}
	return true
}

// combos enumerates every wrapper x transport x Close position x outcome kind
// (x first / second attempt for the reconnecting client) that is meaningful.
func combos() []combo {
	var out []combo
	for _, w := range []string{"rc-base", "rc-cache", "base", "cache"} {
		rc := strings.HasPrefix(w, "rc-")
		for _, t := range []string{"scripted", "fake", "gnmi"} {
			out = append(out, combo{w, t, "never-subscribed", 0, "block", 0})
			for _, k := range allKinds {
				out = append(out, combo{w, t, "before", 0, k, 0})
				if rc {
					out = append(out, combo{w, t, "before", 1, k, 0})
					// not forced: Close after a seeded delay, wherever the client is then
					out = append(out, combo{w, t, "timed", 0, k, 0})
				}
			}
			as := []int{0}
			if rc {
				as = []int{0, 1}
			}
			for _, a := range as {
				for _, k := range allKinds {
					type pj struct {
						p string
						j int
					}
					ps := []pj{{"attempt-start", 0}, {"in-subscribe", 0}, {"after-msg", 0}, {"after-msg", 1}, {"after-msg", 2}, {"blocked", 0}}
					if rc {
						ps = append(ps, pj{"at-disconnect", 0}, pj{"in-backoff", 0}, pj{"after-reset", 0})
					}
					for _, p := range ps {
						if compatible(p.p, k) {
							out = append(out, combo{w, t, p.p, p.j, k, a})
						}
					}
				}
			}
		}
	}
	// Appended later (indexes of the combinations above are unchanged).
	for _, w := range []string{"rc-base", "rc-cache", "base", "cache"} {
		rc := strings.HasPrefix(w, "rc-")
		for _, t := range []string{"scripted", "fake", "gnmi"} {
			for _, k := range allKinds {
				if rc {
					// Close started from inside a method of the caller's context
					// while Subscribe derives its own context.
					out = append(out, combo{w, t, "ctx-hook", 0, k, 0})
					if compatible("prev-impl-close", k) {
						out = append(out, combo{w, t, "prev-impl-close", 0, k, 1})
					}
					continue
				}
				// Bare clients re-subscribed on the same object: A earlier
				// Subscribe calls ended by themselves, Close is aimed at the next.
				type pj struct {
					p string
					j int
				}
				for _, p := range []pj{{"attempt-start", 0}, {"in-subscribe", 0}, {"prev-impl-close", 0}, {"after-msg", 0}, {"after-msg", 1}, {"after-msg", 2}, {"blocked", 0}} {
					if compatible(p.p, k) {
						out = append(out, combo{w, t, p.p, p.j, k, 1})
					}
				}
				for _, p := range []pj{{"in-subscribe", 0}, {"prev-impl-close", 0}, {"after-msg", 1}} {
					if compatible(p.p, k) {
						out = append(out, combo{w, t, p.p, p.j, k, 2})
					}
				}
			}
		}
	}
	// Round 2: connect failures reported as aggregated / unusual error values,
	// and Subscribe contexts that end by deadline.
	for _, w := range []string{"rc-base", "rc-cache", "base", "cache"} {
		rc := strings.HasPrefix(w, "rc-")
		for _, t := range []string{"scripted", "fake", "gnmi"} {
			for _, k := range []string{"failnew", "failsub"} {
				for _, sh := range errShapes {
					if rc {
						// Close only after the failed attempt ended: the retry must come.
						out = append(out, combo{w, t, "at-disconnect", 0, k + "+" + sh, 0})
					} else {
						out = append(out, combo{w, t, "attempt-start", 0, k + "+" + sh, 0})
					}
				}
			}
			for _, k := range allKinds {
				out = append(out, combo{w, t, "deadline", 0, k, 0})
			}
		}
	}
	return out
}

func genMsgs(rng *rand.Rand, transport string, k int) []msgSpec {
	var out []msgSpec
	for i := 0; i < k; i++ {
		switch transport {
		case "fake":
			out = append(out, msgSpec{U: 1})
		case "gnmi":
			if rng.Intn(6) == 0 {
				out = append(out, msgSpec{Sync: true})
				continue
			}
			// Updates or deletes, never both in one message: the statement
			// fixes no order between the two lists of one notification.
			if rng.Intn(4) == 0 {
				out = append(out, msgSpec{D: 1 + rng.Intn(3)})
			} else {
				out = append(out, msgSpec{U: 1 + rng.Intn(3)})
			}
		default:
			out = append(out, msgSpec{U: 1 + rng.Intn(3)})
		}
	}
	return out
}

func genAttempt(rng *rand.Rand, transport, kind string, k int) attemptSpec {
	shape := ""
	if i := strings.IndexByte(kind, '+'); i >= 0 {
		kind, shape = kind[:i], kind[i+1:]
	}
	a := attemptSpec{Kind: kind}
	if kind == "failnew" || kind == "failsub" {
		a.Shape = shape
		if shape == "" && rng.Intn(3) == 0 {
			a.Shape = errShapes[rng.Intn(len(errShapes))]
		}
		return a
	}
	a.Msgs = genMsgs(rng, transport, k)
	if kind == "eof" {
		a.EOF = []string{"io.EOF", "ErrStopReading"}[rng.Intn(2)]
	}
	return a
}

func genCase(cbs []combo, trial int, rng *rand.Rand) caseSpec {
	cb := cbs[trial%len(cbs)]
	rich := trial >= len(cbs)
	s := caseSpec{Wrapper: cb.Wrapper, Transport: cb.Transport, Action: "close", ReleaseAt: "entered"}
	rc := s.rc()
	a := cb.A
	attemptBound := cb.PosKind != "never-subscribed" && cb.PosKind != "before"
	if rich && rc && attemptBound && rng.Intn(3) == 0 {
		a = rng.Intn(5)
	}
	if cb.PosKind == "timed" {
		a = rng.Intn(3)
	}
	if cb.PosKind == "ctx-hook" {
		a = 0
	}
	if cb.PosKind == "deadline" {
		// The deadline lands by timing: earlier attempts (and their backoffs)
		// shift it into connect, streaming, blocked reads or a backoff sleep.
		a = rng.Intn(3)
		if !rc {
			a = 0
		}
	}
	if cb.PosKind == "prev-impl-close" && a == 0 {
		a = 1
	}
	if !rc {
		s.Resub = a
	}
	for i := 0; i < a; i++ {
		kind := endKinds[rng.Intn(len(endKinds))]
		if i == a-1 && cb.PosKind == "prev-impl-close" {
			// the previous attempt must have installed an Impl for the client to tear down
			kind = []string{"err", "eof", "eof"}[rng.Intn(3)]
		}
		s.Script = append(s.Script, genAttempt(rng, cb.Transport, kind, rng.Intn(5)))
	}
	k := rng.Intn(7)
	if cb.PosKind == "after-msg" && cb.PosJ == 1 {
		k = 2 + rng.Intn(5)
	}
	s.Script = append(s.Script, genAttempt(rng, cb.Transport, cb.Kind, k))
	for n := 1 + rng.Intn(2); n > 0; n-- {
		s.Script = append(s.Script, genAttempt(rng, cb.Transport, allKinds[rng.Intn(len(allKinds))], rng.Intn(5)))
	}
	s.Pos = position{Kind: cb.PosKind, Attempt: a}
	switch cb.PosKind {
	case "after-msg":
		switch cb.PosJ {
		case 0:
			s.Pos.J = 0
		case 1:
			s.Pos.J = k / 2
			if s.Pos.J == 0 {
				s.Pos.J = 1
			}
		default:
			s.Pos.J = k
		}
	case "before":
		s.Pos.J = cb.PosJ
	}
	if rc && attemptBound && rng.Intn(7) == 0 {
		s.Action = "cancel"
	}
	s.ReleaseUS = []int{0, -1, 100, 500, 500, 2000, 2000}[rng.Intn(7)]
	if cb.PosKind == "deadline" {
		s.Action = "deadline"
		s.DeadlineMS = 20 + rng.Intn(181)
		if rng.Intn(8) == 0 {
			s.DeadlineMS = 0
		}
	}
	if cb.PosKind == "ctx-hook" {
		s.ReleaseUS = []int{0, -1, 100, 500, 2000, 5000}[rng.Intn(6)]
		s.CtxParent = "cancellable"
		if s.Action == "close" && rng.Intn(2) == 0 {
			s.CtxParent = "background"
		}
	}
	if !rc {
		switch cb.PosKind {
		case "attempt-start", "in-subscribe", "before", "never-subscribed":
			// Close of a bare client before it owns an Impl is refused
			// (ErrClientInit); the parked Impl is released only after that
			// Close returned and the follow-up Close is armed.
			s.ReleaseAt = "returned"
		case "prev-impl-close":
			// The client may hold its lock while it tears the previous Impl
			// down: waiting there for Close to return could deadlock correct code.
		default:
			if rng.Intn(2) == 0 {
				s.ReleaseAt = "returned"
			}
		}
	}
	if cb.Transport == "gnmi" {
		// The real gRPC transport decides by itself what it still delivers.
		s.Buffered, s.LaxConnect = -1, true
	} else {
		s.Buffered = []int{0, 0, 1, 2, 3, -1, -1}[rng.Intn(7)]
		s.LaxConnect = s.Buffered == -1 || rng.Intn(4) == 0
	}
	if (cb.PosKind == "before" || cb.PosKind == "timed" || cb.PosKind == "ctx-hook") && cb.Transport != "gnmi" {
		// A Subscribe issued on an already closed client gets a cancelled
		// context from the start; a well-behaved transport fails to connect with
		// it (clause 5 is about streams that were running when Close came).
		s.LaxConnect = false
		if s.Buffered < 0 {
			s.Buffered = rng.Intn(4)
		}
	}
	s.Hold = rng.Intn(2) == 0
	switch cb.PosKind {
	case "in-backoff":
		s.CloserDelayUS = 500 + rng.Intn(3500)
		if rng.Intn(3) == 0 {
			s.CloserDelayUS = 1000 + rng.Intn(120000)
		}
	case "blocked":
		s.CloserDelayUS = rng.Intn(2000)
	case "timed":
		switch rng.Intn(5) {
		case 0:
			s.CloserDelayUS = 3000 + rng.Intn(40000)
		case 1:
			s.CloserDelayUS = 40000 + rng.Intn(700000)
		default:
			s.CloserDelayUS = 1 + rng.Intn(3000)
		}
	}
	return s
}

// ---------------------------------------------------------------- monitor

const (
	stInit = iota
	stAttempt
	stDisc
	stReset
)

var stName = []string{"no attempt yet", "inside an attempt", "after disconnect", "after reset"}

type event struct {
	Tick int64
	AtUS int64
	Kind string
	What string
}

type violation struct{ sig, what string }

type gate struct {
	pos     position
	fired   bool
	trig    chan struct{}
	release chan struct{}
}

type kase struct {
	r     *vlib.Run
	trial int
	spec  caseSpec
	typ   string
	start time.Time

	mu                 sync.Mutex
	events             []event
	lastEvent          time.Time
	lastBeat           int64
	state              int
	attempts           int
	discs              int
	resets             int
	curAttempt         int
	curMsg             int
	expMsgs            map[int][][]string
	expFlat            map[int][]string
	delivered          map[int]int
	subCalled          bool
	subRet             bool // the last Subscribe call of the case has returned
	subCalls           int
	subRets            int
	latest             *impl
	ended              map[int]bool // attempts whose transport reported failure / end of stream
	subCtx             context.Context
	closeCalled        bool
	closeRet           bool // an effective Close has returned
	cancelCall         bool
	lastCallAt         time.Time // latest close-call or cancel-call
	callBeat           int64
	afterClose         map[int]bool
	lastDiscAt         time.Time
	haveDisc           bool
	viol               []violation
	final              bool
	inBackoffAtClose   bool
	closeState         int
	closeOutstanding   bool
	afterCloseReported bool

	gmu sync.Mutex
	cur *gate

	abort         chan struct{}
	abortOnce     sync.Once
	closeReturned chan struct{}
	closeRetOnce  sync.Once
	subDone       chan struct{}
	closerDone    chan struct{}

	lis *bufconn.Listener
	srv *grpc.Server
}

func (c *kase) bad(sig, what string) {
	if len(c.viol) < 8 {
		c.viol = append(c.viol, violation{sig, fmt.Sprintf("%s (event #%d)", what, len(c.events)-1)})
	}
}

// record appends one event and advances the online state machine.
func (c *kase) record(kind, what string) int {
	c.mu.Lock()
	defer c.mu.Unlock()
	now := time.Now()
	c.events = append(c.events, event{Tick: atomic.AddInt64(&globalTick, 1), AtUS: now.Sub(c.start).Microseconds(), Kind: kind, What: what})
	c.lastEvent, c.lastBeat = now, atomic.LoadInt64(&heartbeat)
	if c.final {
		return 0
	}
	c.r.Count("event_"+kind, 1)
	rc := c.spec.rc()
	ret := 0
	switch kind {
	case "sub-call":
		c.subCalled = true
		c.subCalls++
	case "sub-ret":
		c.subRets++
		c.subRet = c.subRets == c.spec.Resub+1
		if rc {
			if !c.closeCalled && !c.cancelCall && !(c.subCtx != nil && c.subCtx.Err() != nil) {
				c.bad("subscribe-returned-unclosed", fmt.Sprintf("Subscribe of a ReconnectClient returned (%s) although neither Close was called nor its context cancelled: the client stopped resubscribing", what))
			}
			if c.discs < c.attempts {
				c.bad("attempt-without-disconnect", fmt.Sprintf("Subscribe returned after %d attempt(s) but only %d disconnect callback(s)", c.attempts, c.discs))
			} else if c.discs > c.attempts {
				c.bad("disconnect-twice", fmt.Sprintf("Subscribe returned after %d attempt(s) but %d disconnect callback(s)", c.attempts, c.discs))
			}
			c.r.Count("oracle_disconnect_per_attempt_checked", 1)
		}
	case "close-call":
		c.closeCalled, c.closeOutstanding = true, true
		c.lastCallAt, c.callBeat = now, c.lastBeat
		c.closeState = c.state
		if c.state == stDisc {
			c.inBackoffAtClose = true
		}
	case "cancel-call":
		c.cancelCall = true
		c.lastCallAt, c.callBeat = now, c.lastBeat
		c.closeState = c.state
		if c.state == stDisc {
			c.inBackoffAtClose = true
		}
	case "close-ret":
		// effective closes only (the caller records refused ones as close-refused)
		c.closeRet, c.closeOutstanding = true, false
	case "close-noeffect":
		c.closeOutstanding = false
	case "attempt":
		ret = c.attempts
		c.curAttempt = c.attempts
		c.curMsg = -1
		c.attempts++
		if rc {
			switch c.state {
			case stDisc:
				c.bad("retry-without-reset", "a new Subscribe attempt started after a disconnect without the reset callback in between")
			case stAttempt:
				c.bad("attempt-without-disconnect", "a new Subscribe attempt started although the previous attempt was never followed by the disconnect callback")
			}
			if c.haveDisc {
				if gap := now.Sub(c.lastDiscAt); gap < minGap {
					c.bad("retry-without-backoff", fmt.Sprintf("retry started %v after the previous attempt ended (smallest backoff is %v)", gap, 2*minGap))
				}
				c.r.Count("oracle_backoff_gap_checked", 1)
			}
			c.r.Count("oracle_grammar_steps", 1)
		} else if c.attempts > c.subCalls {
			c.bad("second-attempt-on-bare-client", "a bare client created a second Impl for one Subscribe")
		}
		c.state = stAttempt
		m := expectedMsgs(&c.spec, ret)
		c.expMsgs[ret] = m
		var flat []string
		for _, x := range m {
			flat = append(flat, x...)
		}
		c.expFlat[ret] = flat
	case "notif":
		a := c.curAttempt
		if rc && c.state != stAttempt {
			c.bad("delivery-outside-attempt", fmt.Sprintf("notification %s delivered while the client was %s", what, stName[c.state]))
		}
		exp, d := c.expFlat[a], c.delivered[a]
		switch {
		case d >= len(exp):
			c.bad("unexpected-delivery", fmt.Sprintf("attempt %d delivered %s as notification #%d but the stream carried only %d", a, what, d, len(exp)))
		case exp[d] != what && d == 0 && exp[0] == "C":
			c.bad("connected-not-first", fmt.Sprintf("first notification of attempt %d is %s, not Connected", a, what))
		case exp[d] != what:
			c.bad("delivery-out-of-order", fmt.Sprintf("notification #%d of attempt %d is %s, the stream carried %s at that position", d, a, what, exp[d]))
		}
		c.delivered[a] = d + 1
		c.r.Count("oracle_order_checked", 1)
		if c.closeRet {
			c.afterClose[a<<16|(c.curMsg+1)] = true
			if len(c.afterClose) == 2 && !c.afterCloseReported {
				c.afterCloseReported = true
				c.bad("delivery-after-close", fmt.Sprintf("notifications of more than one further message were delivered after Close had returned (latest: %s of attempt %d message %d)", what, a, c.curMsg))
			}
		}
	case "disconnect":
		ret = c.discs
		c.discs++
		switch c.state {
		case stDisc:
			c.bad("disconnect-twice", "disconnect callback invoked twice for one ended attempt")
		case stInit, stReset:
			c.bad("disconnect-without-attempt", "disconnect callback invoked while "+stName[c.state])
		}
		c.state = stDisc
		c.lastDiscAt, c.haveDisc = now, true
		c.r.Count("oracle_grammar_steps", 1)
	case "reset":
		ret = c.resets
		c.resets++
		switch c.state {
		case stAttempt:
			c.bad("reset-without-disconnect", "reset callback invoked although the ended attempt was not (yet) followed by the disconnect callback")
		case stReset:
			c.bad("reset-twice", "reset callback invoked twice before one retry")
		case stInit:
			c.bad("reset-without-attempt", "reset callback invoked before any attempt")
		case stDisc:
			if gap := now.Sub(c.lastDiscAt); gap < minGap {
				c.bad("reset-before-backoff", fmt.Sprintf("reset callback invoked %v after disconnect, i.e. not after the backoff (smallest backoff is %v)", gap, 2*minGap))
			}
			c.r.Count("oracle_reset_gap_checked", 1)
		}
		c.state = stReset
		c.r.Count("oracle_grammar_steps", 1)
	}
	return ret
}

// recvEntry is called at the start of the idx-th Recv of attempt a: everything
// the earlier messages carried must have reached the handler by now.
func (c *kase) recvEntry(a, idx int) {
	c.mu.Lock()
	defer c.mu.Unlock()
	c.lastEvent, c.lastBeat = time.Now(), atomic.LoadInt64(&heartbeat)
	c.curAttempt, c.curMsg = a, idx
	want := 0
	m := c.expMsgs[a]
	for i := 0; i < idx && i < len(m); i++ {
		want += len(m[i])
	}
	if got := c.delivered[a]; got != want && !c.final {
		c.bad("notification-lost", fmt.Sprintf("attempt %d: before receiving message %d the handler had seen %d notification(s), the earlier messages carried %d", a, idx, got, want))
	}
	c.r.Count("oracle_no_loss_checked", 1)
}

func key(a, i, p int) string { return fmt.Sprintf("a%d.m%d.p%d", a, i, p) }
func val(a, i, p int) int64  { return int64(a)*100000 + int64(i)*100 + int64(p) + 1 }

// expectedMsgs: per Recv call of attempt a (index K is the outcome), the
// notifications the handler must see, in order. Written from the script only.
func expectedMsgs(s *caseSpec, a int) [][]string {
	at := s.attempt(a)
	if at.Kind == "failnew" || at.Kind == "failsub" {
		return nil
	}
	k := len(at.Msgs)
	out := make([][]string, k+1)
	for i, m := range at.Msgs {
		switch {
		case m.Sync:
			out[i] = append(out[i], "S")
		default:
			for p := 0; p < m.U; p++ {
				out[i] = append(out[i], "U:"+key(a, i, p))
			}
			for p := 0; p < m.D; p++ {
				out[i] = append(out[i], "D:"+key(a, i, m.U+p))
			}
		}
	}
	switch s.Transport {
	case "fake":
		// The fake announces Connected in its first Recv whatever that Recv
		// goes on to do, and ends a finished script with Sync.
		out[0] = append([]string{"C"}, out[0]...)
		if at.Kind == "eof" {
			out[k] = append(out[k], "S")
		}
	default:
		if k > 0 {
			out[0] = append([]string{"C"}, out[0]...)
		}
	}
	return out
}

func notifString(n client.Notification) string {
	last3 := func(p client.Path) string {
		if len(p) > 3 {
			p = p[len(p)-3:]
		}
		return strings.Join(p, ".")
	}
	switch v := n.(type) {
	case client.Connected:
		return "C"
	case client.Sync:
		return "S"
	case client.Update:
		s := "U:" + last3(v.Path)
		var a, i, p int
		if _, err := fmt.Sscanf(last3(v.Path), "a%d.m%d.p%d", &a, &i, &p); err == nil {
			if iv, ok := v.Val.(int64); !ok || iv != val(a, i, p) {
				s += fmt.Sprintf("(wrong value %v)", v.Val)
			}
		}
		return s
	case client.Delete:
		return "D:" + last3(v.Path)
	default:
		return fmt.Sprintf("?%T", n)
	}
}

// attemptEnded: the transport of attempt a reported a failure or the end of
// its stream to the client (New / Subscribe / Recv returned an error).
func (c *kase) attemptEnded(a int, where string, err error) {
	c.record("attempt-end", where+": "+errString(err))
	c.mu.Lock()
	c.ended[a] = true
	c.mu.Unlock()
}

func (c *kase) handler(n client.Notification) error {
	c.record("notif", notifString(n))
	return nil
}

func (c *kase) onDisconnect() {
	n := c.record("disconnect", "")
	c.at("at-disconnect", n, 0, true)
	c.at("in-backoff", n, 0, false)
}

func (c *kase) onReset() {
	n := c.record("reset", "")
	c.at("after-reset", n, 0, true)
}

// at: the execution reached a position. If it is the armed Close position the
// closer goroutine is triggered and (park) the caller waits until the harness
// has entered Close (bare clients, ReleaseAt == returned: until it returned).
func (c *kase) at(kind string, a, j int, park bool) {
	c.gmu.Lock()
	g := c.cur
	hit := g != nil && !g.fired &&
		((g.pos.Kind == kind && g.pos.Attempt == a && (kind != "after-msg" || g.pos.J == j)) ||
			(g.pos.Kind == "next-recv" && kind == "after-msg"))
	if hit {
		g.fired = true
		close(g.trig)
	}
	c.gmu.Unlock()
	if !hit {
		return
	}
	c.r.Count("position_reached_"+g.pos.Kind, 1)
	if !park {
		return
	}
	select {
	case <-g.release:
	case <-c.abort:
		return
	}
	switch d := c.spec.ReleaseUS; {
	case d < 0:
		runtime.Gosched()
	case d > 0:
		time.Sleep(time.Duration(d) * time.Microsecond)
	}
}

func (c *kase) arm(pos position, fired bool) *gate {
	g := &gate{pos: pos, trig: make(chan struct{}), release: make(chan struct{}), fired: fired}
	if fired {
		close(g.trig)
	}
	c.gmu.Lock()
	c.cur = g
	c.gmu.Unlock()
	return g
}

func (c *kase) hold() {
	t := time.NewTimer(30 * time.Millisecond)
	defer t.Stop()
	select {
	case <-c.closeReturned:
		c.r.Count("hold_saw_close_return", 1)
	case <-t.C:
		c.r.Count("hold_timed_out", 1)
	case <-c.abort:
	}
}

// ---------------------------------------------------------------- scripted Impl (well-behaved transport)

type impl struct {
	c   *kase
	a   int
	at  attemptSpec
	ctx context.Context
	h   client.NotificationHandler

	recvIdx   int
	sawCancel bool
	budget    int

	closeOnce sync.Once
	closedCh  chan struct{}

	f   *fclient.Client
	blk fclient.Block
	g   *gclient.Client
}

func (c *kase) newImpl(ctx context.Context, d client.Destination) (_ client.Impl, err error) {
	a := c.record("attempt", "")
	defer func() {
		if err != nil {
			c.attemptEnded(a, "New", err)
		}
	}()
	w := &impl{c: c, a: a, at: c.spec.attempt(a), ctx: ctx, closedCh: make(chan struct{}), budget: c.spec.Buffered}
	c.mu.Lock()
	c.latest = w
	c.mu.Unlock()
	c.at("attempt-start", a, 0, true)
	if w.at.Kind == "failnew" {
		return nil, shapedErr(w.at.Shape)
	}
	if !c.spec.LaxConnect && ctx.Err() != nil {
		return nil, ctx.Err() // a dial with a cancelled context fails
	}
	switch c.spec.Transport {
	case "fake":
		var ups []interface{}
		for i := range w.at.Msgs {
			ups = append(ups, client.Update{Path: client.Path{fmt.Sprintf("a%d", a), fmt.Sprintf("m%d", i), "p0"}, Val: val(a, i, 0), TS: time.Unix(0, val(a, i, 0))})
		}
		switch w.at.Kind {
		case "err":
			ups = append(ups, errScripted)
		case "block":
			w.blk = make(fclient.Block)
			ups = append(ups, w.blk, errAfterBlock)
		}
		w.f = &fclient.Client{Context: ctx, Updates: ups}
	case "gnmi":
		conn, err := grpc.NewClient("passthrough:///c18",
			grpc.WithContextDialer(func(ctx context.Context, _ string) (net.Conn, error) { return c.lis.DialContext(ctx) }),
			grpc.WithTransportCredentials(insecure.NewCredentials()))
		if err != nil {
			return nil, err
		}
		g, err := gclient.NewFromConn(ctx, conn, d)
		if err != nil {
			conn.Close()
			return nil, err
		}
		w.g = g
	}
	return w, nil
}

func (w *impl) isClosed() bool {
	select {
	case <-w.closedCh:
		return true
	default:
		return false
	}
}

func (w *impl) cancelErr() error {
	if err := w.ctx.Err(); err != nil {
		return err
	}
	return errClosed
}

func (w *impl) Subscribe(ctx context.Context, q client.Query) (err error) {
	defer func() {
		if err != nil {
			w.c.attemptEnded(w.a, "Subscribe", err)
		}
	}()
	w.c.at("in-subscribe", w.a, 0, true)
	if w.at.Kind == "failsub" {
		return shapedErr(w.at.Shape)
	}
	if !w.c.spec.LaxConnect && (ctx.Err() != nil || w.isClosed()) {
		if err := ctx.Err(); err != nil {
			return err
		}
		return errClosed
	}
	w.h = q.NotificationHandler
	switch {
	case w.f != nil:
		return w.f.Subscribe(ctx, q)
	case w.g != nil:
		return w.g.Subscribe(metadata.AppendToOutgoingContext(ctx, "c18-attempt", strconv.Itoa(w.a)), q)
	}
	return nil
}

func (w *impl) Recv() (err error) {
	defer func() {
		if err != nil {
			w.c.attemptEnded(w.a, "Recv", err)
		}
	}()
	c := w.c
	idx := w.recvIdx
	w.recvIdx++
	k := len(w.at.Msgs)
	c.recvEntry(w.a, idx)
	c.at("after-msg", w.a, idx, true)
	if idx == k && w.at.Kind == "block" {
		c.at("blocked", w.a, 0, false)
	}
	if idx > k {
		// The previous Recv reported the end of the stream (error / EOF).
		c.mu.Lock()
		if !c.final {
			c.bad("read-after-stream-end", fmt.Sprintf("attempt %d: Recv was called again after it had reported the end of the stream (%s): the attempt was not ended", w.a, w.at.Kind))
		}
		c.mu.Unlock()
		return errScripted
	}
	if w.ctx.Err() != nil || w.isClosed() {
		if !w.sawCancel {
			w.sawCancel = true
			if c.spec.Hold {
				c.hold()
			}
		}
		if c.spec.Buffered >= 0 {
			if w.budget == 0 || idx >= k {
				return w.cancelErr()
			}
			w.budget--
			c.r.Count("buffered_message_after_cancel", 1)
		}
	}
	switch {
	case w.f != nil:
		return w.f.Recv()
	case w.g != nil:
		return w.g.Recv()
	}
	// scripted transport
	if idx < k {
		if idx == 0 {
			w.h(client.Connected{})
		}
		for p := 0; p < w.at.Msgs[idx].U; p++ {
			w.h(client.Update{Path: client.Path{fmt.Sprintf("a%d", w.a), fmt.Sprintf("m%d", idx), fmt.Sprintf("p%d", p)}, Val: val(w.a, idx, p), TS: time.Unix(0, val(w.a, idx, p))})
		}
		return nil
	}
	switch w.at.Kind {
	case "err":
		return errScripted
	case "eof":
		if w.at.EOF == "io.EOF" {
			return io.EOF
		}
		return client.ErrStopReading
	default:
		select {
		case <-w.ctx.Done():
			return w.ctx.Err()
		case <-w.closedCh:
			return errClosed
		}
	}
}

func (w *impl) Close() error {
	// Closed although a newer Impl exists already: the client is tearing the
	// previous transport down during a re-Subscribe.
	w.c.mu.Lock()
	newest := w.c.attempts - 1
	w.c.mu.Unlock()
	if newest > w.a {
		w.c.at("prev-impl-close", newest, 0, true)
	}
	w.closeOnce.Do(func() {
		close(w.closedCh)
		if w.blk != nil {
			w.blk.Unblock()
		}
		if w.g != nil {
			w.g.Close()
		}
		w.c.r.Count("impl_closed", 1)
	})
	return nil
}

func (w *impl) Poll() error { return nil }

// ---------------------------------------------------------------- scripted gNMI server (gnmi transport)

type gsrv struct {
	gpb.UnimplementedGNMIServer
	c *kase
}

func (s *gsrv) Subscribe(stream gpb.GNMI_SubscribeServer) error {
	if _, err := stream.Recv(); err != nil {
		return err
	}
	a := -1
	if md, ok := metadata.FromIncomingContext(stream.Context()); ok {
		if v := md.Get("c18-attempt"); len(v) > 0 {
			a, _ = strconv.Atoi(v[0])
		}
	}
	if a < 0 {
		return status.Error(codes.InvalidArgument, "no attempt number")
	}
	at := s.c.spec.attempt(a)
	pe := func(i, p int) *gpb.Path {
		return &gpb.Path{Elem: []*gpb.PathElem{{Name: fmt.Sprintf("a%d", a)}, {Name: fmt.Sprintf("m%d", i)}, {Name: fmt.Sprintf("p%d", p)}}}
	}
	for i, m := range at.Msgs {
		var resp *gpb.SubscribeResponse
		if m.Sync {
			resp = &gpb.SubscribeResponse{Response: &gpb.SubscribeResponse_SyncResponse{SyncResponse: true}}
		} else {
			n := &gpb.Notification{Timestamp: int64(i + 1), Prefix: &gpb.Path{Target: "t"}}
			for p := 0; p < m.U; p++ {
				n.Update = append(n.Update, &gpb.Update{Path: pe(i, p), Val: &gpb.TypedValue{Value: &gpb.TypedValue_IntVal{IntVal: val(a, i, p)}}})
			}
			for p := 0; p < m.D; p++ {
				n.Delete = append(n.Delete, pe(i, m.U+p))
			}
			resp = &gpb.SubscribeResponse{Response: &gpb.SubscribeResponse_Update{Update: n}}
		}
		if err := stream.Send(resp); err != nil {
			return err
		}
	}
	switch at.Kind {
	case "err":
		return status.Error(codes.Unavailable, "scripted failure")
	case "eof":
		return nil
	default:
		<-stream.Context().Done()
		return stream.Context().Err()
	}
}

// ---------------------------------------------------------------- driver

func errString(err error) string {
	if err == nil {
		return "nil"
	}
	s := err.Error()
	if len(s) > 80 {
		s = s[:80]
	}
	return s
}

func (c *kase) trace() []string {
	out := make([]string, 0, len(c.events))
	for _, e := range c.events {
		s := fmt.Sprintf("%d %s", e.Tick, e.Kind)
		if e.What != "" {
			s += " " + e.What
		}
		out = append(out, fmt.Sprintf("%s @%dus", s, e.AtUS))
	}
	if len(out) > 400 {
		out = append(out[:200], out[len(out)-200:]...)
	}
	return out
}

func (c *kase) kinds() string {
	var b strings.Builder
	for _, e := range c.events {
		b.WriteString(e.Kind)
		b.WriteByte(',')
	}
	return b.String()
}

func runCase(r *vlib.Run, trial int, spec caseSpec) {
	c := &kase{r: r, trial: trial, spec: spec, typ: fmt.Sprintf("c18-%d", trial), start: time.Now(),
		expMsgs: map[int][][]string{}, expFlat: map[int][]string{}, ended: map[int]bool{}, delivered: map[int]int{}, afterClose: map[int]bool{},
		abort: make(chan struct{}), closeReturned: make(chan struct{}), subDone: make(chan struct{}), closerDone: make(chan struct{})}
	c.lastEvent, c.lastBeat = c.start, atomic.LoadInt64(&heartbeat)
	if err := client.Register(c.typ, c.newImpl); err != nil {
		panic("c18 harness: " + err.Error())
	}
	if spec.Transport == "gnmi" {
		c.lis = bufconn.Listen(1 << 20)
		c.srv = grpc.NewServer()
		gpb.RegisterGNMIServer(c.srv, &gsrv{c: c})
		go c.srv.Serve(c.lis)
		defer func() {
			go func() { c.srv.Stop(); c.lis.Close() }()
		}()
	}
	r.Eval(1)
	r.Count("cases_"+spec.Wrapper, 1)
	r.Count("cases_transport_"+spec.Transport, 1)
	r.Count("cases_position_"+spec.Pos.Kind, 1)
	r.Count("cases_action_"+spec.Action, 1)

	var cl client.Client
	switch spec.Wrapper {
	case "base":
		cl = &client.BaseClient{}
	case "cache":
		cl = client.New()
	case "rc-base":
		cl = client.Reconnect(&client.BaseClient{}, c.onDisconnect, c.onReset)
	default:
		cl = client.Reconnect(client.New(), c.onDisconnect, c.onReset)
	}
	rc := spec.rc()
	ctx, cancel := context.WithCancel(context.Background())
	defer cancel()
	subCtx := context.Context(ctx)
	if spec.Pos.Kind == "ctx-hook" {
		parent := context.Context(ctx)
		if spec.CtxParent == "background" {
			parent = context.Background()
		}
		subCtx = &hookCtx{Context: parent, c: c}
	}
	if spec.Action == "deadline" {
		var dcancel context.CancelFunc
		if spec.DeadlineMS == 0 {
			subCtx, dcancel = context.WithDeadline(ctx, time.Now().Add(-time.Second))
		} else {
			subCtx, dcancel = context.WithTimeout(ctx, time.Duration(spec.DeadlineMS)*time.Millisecond)
		}
		defer dcancel()
	}
	c.mu.Lock()
	c.subCtx = subCtx
	if h, ok := subCtx.(*hookCtx); ok {
		c.subCtx = h.Context // the monitor must not run the hook
	}
	c.mu.Unlock()
	q := client.Query{Addrs: []string{"c18"}, Target: "t", Queries: []client.Path{{"*"}}, Type: client.Stream, NotificationHandler: c.handler}

	panicked := func(where string) {
		if p := recover(); p != nil {
			c.mu.Lock()
			c.bad("panic:"+where, fmt.Sprintf("%s panicked: %v", where, p))
			c.mu.Unlock()
		}
	}
	doClose := func() (err error) {
		defer panicked("Close")
		return cl.Close()
	}
	immediate := spec.Pos.Kind == "never-subscribed" || spec.Pos.Kind == "before" || spec.Pos.Kind == "timed"
	g0 := c.arm(spec.Pos, immediate)
	firstCloseDone := make(chan struct{})
	var firstOnce sync.Once
	subWillRun := spec.Pos.Kind != "never-subscribed"

	startSub := func(waitFor <-chan struct{}) {
		go func() {
			defer close(c.subDone)
			if waitFor != nil {
				select {
				case <-waitFor:
				case <-c.abort:
				}
				if spec.ReleaseUS > 0 {
					time.Sleep(time.Duration(spec.ReleaseUS) * time.Microsecond)
				}
			}
			// Bare clients: spec.Resub earlier Subscribe calls on the same
			// object end by themselves; Close is aimed at the last one.
			for i := 0; i <= spec.Resub; i++ {
				c.record("sub-call", "")
				var err error
				func() {
					defer panicked("Subscribe")
					err = cl.Subscribe(subCtx, q, c.typ)
				}()
				c.record("sub-ret", errString(err))
			}
		}()
	}

	// closer
	go func() {
		defer close(c.closerDone)
		defer firstOnce.Do(func() { close(firstCloseDone) })
		g := g0
		if spec.Action == "deadline" {
			// The Subscribe context ends by itself; after that Subscribe must
			// return, and a following Close must return.
			select {
			case <-subCtx.Done():
			case <-c.abort:
				return
			}
			c.record("cancel-call", "deadline exceeded")
			select {
			case <-c.subDone:
			case <-c.abort:
				return
			}
			c.record("close-call", "")
			err := doClose()
			c.record("close-ret", errString(err))
			c.closeRetOnce.Do(func() { close(c.closeReturned) })
			return
		}
		for round := 0; round < 2; round++ {
			select {
			case <-g.trig:
			case <-c.abort:
				return
			case <-c.subDone:
				// Subscribe is over; nothing will reach the position any more.
				select {
				case <-g.trig:
				default:
					return
				}
			}
			if round == 0 && spec.CloserDelayUS > 0 {
				time.Sleep(time.Duration(spec.CloserDelayUS) * time.Microsecond)
			}
			if spec.Action == "cancel" {
				c.record("cancel-call", "")
				close(g.release)
				cancel()
				select {
				case <-c.subDone:
				case <-c.abort:
					return
				}
				c.record("close-call", "")
				err := doClose()
				c.record("close-ret", errString(err))
				c.closeRetOnce.Do(func() { close(c.closeReturned) })
				return
			}
			c.record("close-call", "")
			if spec.ReleaseAt != "returned" {
				close(g.release)
			}
			err := doClose()
			// A bare client's Close has an effect on the current stream only
			// when it reached the newest Impl (before the client owns an Impl it
			// is refused with ErrClientInit; while a re-Subscribe is still
			// connecting it closes the previous Impl only, and the Subscribe in
			// progress re-arms the client: not judged, a follow-up Close is).
			effective := rc || (err == nil && c.latestClosed())
			var next *gate
			if !effective && round == 0 && subWillRun {
				next = c.arm(position{Kind: "next-recv"}, false)
			}
			if effective {
				c.record("close-ret", errString(err))
				c.closeRetOnce.Do(func() { close(c.closeReturned) })
			} else {
				c.record("close-noeffect", errString(err))
			}
			if spec.ReleaseAt == "returned" {
				close(g.release)
			}
			firstOnce.Do(func() { close(firstCloseDone) })
			if effective || next == nil {
				return
			}
			g = next
		}
	}()

	switch {
	case !subWillRun:
	case spec.Pos.Kind == "before" && spec.Pos.J == 0:
		startSub(firstCloseDone)
	case spec.Pos.Kind == "before":
		startSub(g0.release)
	default:
		startSub(nil)
	}

	// wait, with the bounded-progress watchdog
	subCh, closerCh := (<-chan struct{})(c.subDone), (<-chan struct{})(c.closerDone)
	if !subWillRun {
		subCh = nil
	}
	tick := time.NewTicker(250 * time.Millisecond)
	defer tick.Stop()
	stuck := false
	for (subCh != nil || closerCh != nil) && !stuck {
		select {
		case <-subCh:
			subCh = nil
		case <-closerCh:
			closerCh = nil
		case <-tick.C:
			c.mu.Lock()
			idle := time.Since(c.lastEvent)
			var sinceCall time.Duration
			if !c.lastCallAt.IsZero() {
				sinceCall = time.Since(c.lastCallAt)
			}
			c.mu.Unlock()
			// Bounded progress: nothing at all happened for the grace period, or
			// Close / cancel was issued that long ago and a call is still pending
			// (a library that keeps retrying after Close produces events forever).
			if idle > grace || sinceCall > grace {
				stuck = true
			}
		}
	}
	if stuck {
		c.judgeStuck()
		c.abortOnce.Do(func() { close(c.abort) })
		cancel()
	} else {
		// A short settling window: anything still delivered now is judged by clause 5.
		time.Sleep(2 * time.Millisecond)
	}
	c.finish(stuck)
	// hygiene (not judged): release whatever the last Impl holds
	go func() {
		defer func() { recover() }()
		cl.Close()
	}()
}

// judgeStuck: no event for the whole grace period, or a call still pending a
// grace period after Close / cancel. A violation only when the stuck state is
// attributable to the library.
func (c *kase) judgeStuck() {
	buf := make([]byte, 1<<20)
	dump := string(buf[:runtime.Stack(buf, true)])
	c.mu.Lock()
	defer c.mu.Unlock()
	// The process must have been running normally during the window that
	// expired: since the last event (idle), or since the call (deadline).
	beats := atomic.LoadInt64(&heartbeat) - c.lastBeat
	if time.Since(c.lastEvent) <= grace {
		beats = atomic.LoadInt64(&heartbeat) - c.callBeat
	}
	rc := c.spec.rc()
	var sig, what string
	var awaited []string
	switch {
	case c.cancelCall && !c.subRet:
		sig, what = "subscribe-never-returns", "Subscribe has not returned although its context has ended (cancelled, or deadline passed)"
		awaited = []string{"client.(*ReconnectClient).Subscribe", "client.(*BaseClient).Subscribe", "client.(*BaseClient).run"}
	case c.closeOutstanding:
		sig, what = "close-never-returns", "Close has not returned"
		awaited = []string{"client.(*ReconnectClient).Close", "client.(*BaseClient).Close"}
	case c.closeRet && c.subCalled && !c.subRet:
		sig, what = "subscribe-never-returns", "Subscribe has not returned although Close returned"
		awaited = []string{"client.(*ReconnectClient).Subscribe", "client.(*BaseClient).Subscribe", "client.(*BaseClient).run"}
	case rc && !c.closeCalled && c.subCalled && !c.subRet && (c.state == stDisc || c.state == stReset):
		sig, what = "retry-stopped", "an ended attempt of a ReconnectClient that was not closed was not followed by another attempt"
		awaited = []string{"client.(*ReconnectClient).Subscribe"}
	case rc && !c.closeCalled && c.subCalled && !c.subRet && c.state == stAttempt && c.ended[c.attempts-1]:
		sig, what = "retry-stopped", fmt.Sprintf("the transport of attempt %d reported its failure / the end of its stream to the client, but the ReconnectClient (not closed) neither called disconnect nor started another attempt", c.attempts-1)
		awaited = []string{"client.(*ReconnectClient).Subscribe"}
	case !rc && c.subCalled && !c.subRet && c.attempts > 0 && c.ended[c.attempts-1]:
		sig, what = "subscribe-never-returns", fmt.Sprintf("the transport of attempt %d reported its failure / the end of its stream to the client, but Subscribe has not returned", c.attempts-1)
		awaited = []string{"client.(*BaseClient).Subscribe", "client.(*BaseClient).run", "client.getFirst"}
	}
	found := false
	for _, a := range awaited {
		if strings.Contains(dump, a) {
			found = true
		}
	}
	switch {
	case sig == "":
		c.r.Inconclusive("case stuck in a state where the property demands nothing (harness script could not reach its Close position)")
	case beats < int64(grace/beatEvery)/4:
		c.r.Inconclusive("no progress within the grace period but the process itself was starved")
	case !found:
		c.r.Inconclusive("no progress within the grace period and the goroutine dump does not show the awaited call")
	default:
		if len(dump) > 60000 {
			dump = dump[:60000]
		}
		after := 0
		seen := false
		for _, e := range c.events {
			if e.Kind == "close-call" || e.Kind == "cancel-call" {
				seen = true
			} else if seen && e.Kind == "attempt" {
				after++
			}
		}
		c.viol = append(c.viol, violation{sig, fmt.Sprintf("%s within %v (1000 x RetryMaxDelay); %d new attempt(s) were started after Close / the end of the context; the scripted transport is not holding anything (its reads return on context cancellation and on Close). Goroutine dump in the witness.", what, grace, after)})
		c.events = append(c.events, event{Tick: atomic.AddInt64(&globalTick, 1), AtUS: time.Since(c.start).Microseconds(), Kind: "watchdog", What: dump})
	}
}

func (c *kase) latestClosed() bool {
	c.mu.Lock()
	w := c.latest
	c.mu.Unlock()
	return w != nil && w.isClosed()
}

// hookCtx is a legal caller-provided context: the first time any of its
// methods is consulted (context.WithCancel consults the parent while
// Subscribe derives its own context) it starts Close on the closer goroutine,
// lingers a seeded moment and returns. It never waits for that Close.
type hookCtx struct {
	context.Context
	c    *kase
	once sync.Once
}

func (h *hookCtx) fire() {
	h.once.Do(func() {
		h.c.at("ctx-hook", 0, 0, false)
		switch d := h.c.spec.ReleaseUS; {
		case d < 0:
			runtime.Gosched()
		case d > 0:
			time.Sleep(time.Duration(d) * time.Microsecond)
		}
	})
}

func (h *hookCtx) Done() <-chan struct{}           { h.fire(); return h.Context.Done() }
func (h *hookCtx) Err() error                      { h.fire(); return h.Context.Err() }
func (h *hookCtx) Value(k interface{}) interface{} { h.fire(); return h.Context.Value(k) }

func (c *kase) hasEvent(kind string) bool {
	for _, e := range c.events {
		if e.Kind == kind {
			return true
		}
	}
	return false
}

func bucket(d time.Duration) string {
	switch {
	case d <= time.Millisecond:
		return "le_1ms"
	case d <= 10*time.Millisecond:
		return "le_10ms"
	case d <= 100*time.Millisecond:
		return "le_100ms"
	case d <= time.Second:
		return "le_1s"
	case d <= 5*time.Second:
		return "le_5s"
	}
	return "gt_5s"
}

func (c *kase) finish(stuck bool) {
	c.mu.Lock()
	defer c.mu.Unlock()
	c.final = true
	r := c.r
	specJSON, _ := json.Marshal(c.spec)
	for i, v := range c.viol {
		if i >= 3 {
			break
		}
		r.Violation("case", c.trial, v.sig, fmt.Sprintf("%s client over the %s transport, %s at position %s (attempt %d, j %d): %s", c.spec.Wrapper, c.spec.Transport, c.spec.Action, c.spec.Pos.Kind, c.spec.Pos.Attempt, c.spec.Pos.J, v.what),
			map[string]interface{}{"case": c.spec, "trace": c.trace()})
	}
	if stuck {
		return
	}
	judged := false
	if c.closeCalled || c.cancelCall {
		// both returns were observed (the wait loop ended without the watchdog)
		r.Count("oracle_termination_judged", 1)
		judged = true
		var callAt, closeRetAt, subRetAt int64 = -1, -1, -1
		for _, e := range c.events {
			switch e.Kind {
			case "close-call", "cancel-call":
				if callAt < 0 {
					callAt = e.AtUS
				}
			case "close-ret":
				closeRetAt = e.AtUS
			case "sub-ret":
				subRetAt = e.AtUS
			}
		}
		if closeRetAt >= 0 && callAt >= 0 {
			r.Count("close_to_close_return_"+bucket(time.Duration(closeRetAt-callAt)*time.Microsecond), 1)
		}
		if subRetAt >= 0 && callAt >= 0 && subRetAt > callAt {
			r.Count("close_to_subscribe_return_"+bucket(time.Duration(subRetAt-callAt)*time.Microsecond), 1)
		}
		if c.inBackoffAtClose {
			r.Count("window_close_during_backoff_sleep", 1)
		}
		r.Count("close_called_while_"+strings.ReplaceAll(stName[c.closeState], " ", "_"), 1)
		if c.spec.Action == "deadline" {
			r.Count("deadline_passed_while_"+strings.ReplaceAll(stName[c.closeState], " ", "_"), 1)
		}
	}
	if c.closeRet {
		r.Count(fmt.Sprintf("oracle_after_close_messages_%d", len(c.afterClose)), 1)
	}
	if c.hasEvent("close-noeffect") {
		r.Count("bare_client_close_without_effect_on_current_stream", 1)
	}
	r.Count("attempts_observed", int64(c.attempts))
	if judged {
		r.Distinct(vlib.Hash(string(specJSON), c.kinds()))
		r.SetAdd("trace_shapes", c.spec.Wrapper+"|"+c.spec.Pos.Kind+"|"+c.kinds())
	}
	if r.WantSample() && c.trial%37 == 5 {
		tr := c.trace()
		if len(tr) > 40 {
			tr = tr[:40]
		}
		r.Sample(map[string]interface{}{"trial": c.trial, "case": c.spec, "trace_prefix": tr})
	}
}

func body(r *vlib.Run) {
	// Before any ReconnectClient exists (the first backoff of each client is
	// still drawn from the backoff library's 500 ms default; tolerated).
	client.RetryBaseDelay = baseDelay
	client.RetryMaxDelay = maxDelay
	go func() {
		for {
			time.Sleep(beatEvery)
			atomic.AddInt64(&heartbeat, 1)
		}
	}()
	// Some shards run on fewer Ps: more preemption-driven interleavings.
	switch r.Shard % 4 {
	case 1:
		runtime.GOMAXPROCS(4)
	case 3:
		runtime.GOMAXPROCS(2)
	}
	modeCloseWindow(r)
	modeRealConnect(r)
	modeHandlerClose(r)
	cbs := combos()
	type job struct {
		trial int
		spec  caseSpec
	}
	var jobs []job
	r.ForTrials("case", r.N(4*len(cbs), 150000), func(trial int, rng *rand.Rand) {
		jobs = append(jobs, job{trial, genCase(cbs, trial, rng)})
	})
	if r.Shard == 0 {
		r.Count("systematic_combinations", int64(len(cbs)))
	}
	sem := make(chan struct{}, wide)
	var wg sync.WaitGroup
	for _, j := range jobs {
		if r.NViolations() >= 8 {
			r.Count("cases_skipped_after_violations", 1)
			continue
		}
		sem <- struct{}{}
		wg.Add(1)
		go func(j job) {
			defer wg.Done()
			defer func() { <-sem }()
			runCase(r, j.trial, j.spec)
		}(j)
	}
	wg.Wait()
}

func postMerge(tier string, counters map[string]int64) []string {
	var out []string
	for _, k := range []string{"never-subscribed", "before", "timed", "deadline", "ctx-hook", "prev-impl-close", "attempt-start", "in-subscribe", "after-msg", "blocked", "at-disconnect", "in-backoff", "after-reset"} {
		if k == "never-subscribed" || k == "before" || k == "timed" || k == "deadline" {
			if counters["cases_position_"+k] == 0 {
				out = append(out, "Close position "+k+" was never exercised")
			}
			continue
		}
		if counters["position_reached_"+k] == 0 {
			out = append(out, "Close position "+k+" was never reached")
		}
	}
	if counters["window_close_during_backoff_sleep"] == 0 {
		out = append(out, "Close never landed inside a backoff sleep (disconnect seen, reset not yet)")
	}
	if counters["cases_skipped_after_violations"] > 0 {
		out = append(out, "cases were skipped after the first violations in a shard")
	}
	return out
}

func main() {
	vlib.Main(&vlib.Spec{
		ID:   "C18",
		Rule: "Each case: the real BaseClient / CacheClient, bare or wrapped in the real ReconnectClient (disconnect and reset callbacks recorded), over a scripted client.Impl registered under its own type name; the Impl wraps one of three transports (purely scripted; the repository's client/fake Client; the real client/gnmi Client via NewFromConn against a scripted bufconn gNMI server) and plays a per-attempt script: fail in New / fail in Subscribe / deliver k numbered messages (1-3 notifications each; updates, deletes, syncs on gnmi) then error / EOF (io.EOF or ErrStopReading) / block. The transport is well-behaved (blocking reads return on context cancellation and on Close) and differs by seed in how many already received messages it still hands over after cancel/Close (0-3, or all). Close (1 in 7: cancellation of the Subscribe context, then Close) is issued from another goroutine at a FORCED position (the Impl or callback parks there until the harness has entered Close): never subscribed, before Subscribe (sequential / concurrent), unforced after a seeded delay (timed), attempt start, inside Impl.Subscribe, after the j-th message (first / middle / last), in a blocked read, inside the disconnect callback, during the backoff sleep, right after reset, inside the previous Impl's Close while the client re-subscribes, inside a method of a caller-provided custom context while Subscribe derives its own context (Close started there on another goroutine, never awaited there). Failures in New / Subscribe are reported as plain errors or, by seed, as aggregated / unusual error values (errlist.List with 2-3 causes, an error that is a []error, aggregates without causes, errors.Join). Besides explicit cancellation the Subscribe context may end by a 20-200 ms (or already expired) deadline that lands by timing in connect, streaming, a blocked read or a backoff sleep; Subscribe must then return and a following Close must return. Bare clients are also re-subscribed on the same object (1-2 earlier Subscribe calls that ended cleanly or with an error) before the Subscribe Close is aimed at. Mode realconnect: the library's own gnmi constructor dials a peer that accepts the TCP connection and stays silent (connect timeout 10 min); Close of the reconnecting client, or the end of the Subscribe context, a few ms into that dial must end it (both calls return within the 20 s bound). Mode handlerclose: Close issued from inside the notification handler of a bare BaseClient / CacheClient (on the handler's own goroutine, at a seeded notification); both calls must return. Mode closewindow: Subscribe on a ReconnectClient starts while its Close is inside the wrapped client's (slow) Close, a little later, or a little before Close; both calls must return. The quick tier enumerates every wrapper x transport x position x outcome kind (x first / second attempt) once, seeded random scripts (up to 7 attempts) beyond. A case is distinct non-trivial when Close or cancel was issued and both returns were observed, by the hash of its description and its event-kind trace.",
		Assumptions: []string{
			"client.RetryBaseDelay/RetryMaxDelay are set to 10/20 ms before any ReconnectClient is created; the first backoff of each client still comes from the backoff library's 500 ms default (250-750 ms) and is tolerated",
			"termination is restated as bounded progress: a violation only when a call is still pending 20 s (1000 x RetryMaxDelay) after Close/cancel was issued, or no event at all was recorded for 20 s (after Close/cancel, or after an ended attempt of an unclosed client), AND the process heartbeat kept running in that window AND the goroutine dump shows the awaited call; otherwise inconclusive. The statement's 'within the current backoff interval' is only reported as latency histograms (close_to_*_return_*)",
			"the scripted transport is well-behaved by construction: its blocking reads return on context cancellation and on Impl.Close; parks are released by the harness as soon as it has entered Close (bare clients: for Closes issued before the client owns an Impl, after that refused Close returned)",
			"Close of a bare BaseClient/CacheClient that does not yet own an Impl returns ErrClientInit and has no effect (documented); a Close that lands while a re-Subscribe on the same object is still connecting reaches only the previous Impl and the Subscribe in progress re-arms the client (what Subscribe on a closed bare client does is not specified beyond terminating). Neither is judged: the harness issues a follow-up Close at the next read and judges termination and clause 5 on the Close that reached the newest Impl",
			"timing clauses are one-sided: disconnect->reset and disconnect->retry gaps must be >= 2.5 ms (smallest drawable backoff is 5 ms; load only lengthens them). That reset follows the backoff is taken from the property's mechanism anchor (disconnect, ctx check, backoff, reset)",
			"after both calls returned the trace is observed for 2 ms more; later deliveries would be missed (never a false alarm)",
		},
		QuickShards: 8, ThoroughShards: 16,
		MinDistinctQuick: 1500, MinDistinctThorough: 60000,
		PostMerge: postMerge,
		Body:      body,
	})
}
