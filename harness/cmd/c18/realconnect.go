package main

// Mode "realconnect": Close / cancellation during the INITIAL CONNECT of the
// real gnmi transport.
//
// Every other mode reaches the gnmi Client through client.Register'ed
// constructors or NewFromConn, i.e. behind an established connection. Here the
// library's own constructor (client/gnmi.New, registered under gnmi.Type) dials
// a peer that accepts the TCP connection and then never says anything, with a
// connect timeout of 10 minutes. Close of the reconnecting client (or the end
// of the Subscribe context) a few milliseconds into that dial must end the
// attempt: both calls return (bounded progress: 20 s, the property's 1000 x
// RetryMaxDelay), long before the connect timeout.

import (
	"context"
	"fmt"
	"math/rand"
	"net"
	"runtime"
	"strings"
	"sync"
	"sync/atomic"
	"time"

	"github.com/openconfig/gnmi/client"
	gclient "github.com/openconfig/gnmi/client/gnmi"

	"verif/internal/vlib"
)

type blackhole struct {
	l     net.Listener
	mu    sync.Mutex
	conns []net.Conn
}

func newBlackhole() (*blackhole, error) {
	l, err := net.Listen("tcp", "127.0.0.1:0")
	if err != nil {
		return nil, err
	}
	b := &blackhole{l: l}
	go func() {
		for {
			c, err := l.Accept()
			if err != nil {
				return
			}
			b.mu.Lock()
			b.conns = append(b.conns, c)
			b.mu.Unlock()
		}
	}()
	return b, nil
}

func (b *blackhole) accepted() int {
	b.mu.Lock()
	defer b.mu.Unlock()
	return len(b.conns)
}

func (b *blackhole) close() {
	b.l.Close()
	b.mu.Lock()
	for _, c := range b.conns {
		c.Close()
	}
	b.mu.Unlock()
}

func realConnectCase(r *vlib.Run, bh *blackhole, trial int, rng *rand.Rand) {
	wrapper := []string{"rc-base", "rc-cache", "base", "cache"}[rng.Intn(4)]
	action := "close"
	if !strings.HasPrefix(wrapper, "rc-") || rng.Intn(3) == 0 {
		// A bare client's Close before it owns an Impl is refused (ErrClientInit,
		// documented): the context is what ends its connect.
		action = "cancel"
	}
	var cl client.Client
	switch wrapper {
	case "base":
		cl = &client.BaseClient{}
	case "cache":
		cl = client.New()
	case "rc-base":
		cl = client.Reconnect(&client.BaseClient{}, nil, nil)
	default:
		cl = client.Reconnect(client.New(), nil, nil)
	}
	ctx, cancel := context.WithCancel(context.Background())
	defer cancel()
	q := client.Query{Addrs: []string{bh.l.Addr().String()}, Target: "t", Queries: []client.Path{{"*"}}, Type: client.Stream,
		Timeout: 10 * time.Minute, NotificationHandler: func(client.Notification) error { return nil }}
	before := bh.accepted()
	subDone, actDone := make(chan struct{}), make(chan struct{})
	var subErr error
	go func() {
		defer close(subDone)
		subErr = cl.Subscribe(ctx, q, gclient.Type)
	}()
	// Act once the peer has accepted the connection (the dial is in progress) plus a seeded delay.
	for i := 0; i < 2000 && bh.accepted() == before; i++ {
		time.Sleep(time.Millisecond)
	}
	inDial := bh.accepted() > before
	time.Sleep(time.Duration(rng.Intn(8000)) * time.Microsecond)
	t0 := time.Now()
	go func() {
		defer close(actDone)
		if action == "cancel" {
			cancel()
		} else {
			cl.Close()
		}
	}()
	r.Eval(1)
	r.Count("realconnect_"+wrapper+"_"+action, 1)
	if inDial {
		r.Count("realconnect_acted_while_the_peer_held_the_connection_silent", 1)
	}
	beat0 := atomic.LoadInt64(&heartbeat)
	deadline := time.After(grace)
	sd, ad := (<-chan struct{})(subDone), (<-chan struct{})(actDone)
	for sd != nil || ad != nil {
		select {
		case <-sd:
			sd = nil
		case <-ad:
			ad = nil
		case <-deadline:
			buf := make([]byte, 1<<20)
			dump := string(buf[:runtime.Stack(buf, true)])
			beats := atomic.LoadInt64(&heartbeat) - beat0
			var pending []string
			if sd != nil {
				pending = append(pending, "Subscribe")
			}
			if ad != nil {
				pending = append(pending, "Close")
			}
			if beats < int64(grace/beatEvery)/2 || !strings.Contains(dump, "openconfig/gnmi/client") {
				r.Inconclusive("realconnect: calls pending after the grace period but the stuck state is not attributable")
			} else {
				r.Violation("realconnect", trial, "connect-not-ended-by-"+action, fmt.Sprintf("%s still pending %v after %s was issued during the initial connect of the real gnmi transport to a peer that accepted the connection and stays silent (connect timeout 10 min; wrapper %s)",
					strings.Join(pending, " and "), grace, action, wrapper), map[string]interface{}{"wrapper": wrapper, "action": action, "goroutines": truncateDump(dump)})
			}
			cancel()
			go func() { defer func() { recover() }(); cl.Close() }()
			return
		}
	}
	_ = subErr
	r.Count("realconnect_both_returned", 1)
	r.Count("realconnect_to_both_returned_"+bucket(time.Since(t0)), 1)
	r.Distinct(vlib.Hash("realconnect", wrapper, action, trial))
}

func modeRealConnect(r *vlib.Run) {
	bh, err := newBlackhole()
	if err != nil {
		r.Inconclusive("realconnect: cannot listen")
		return
	}
	defer bh.close()
	sem := make(chan struct{}, 8)
	var wg sync.WaitGroup
	r.ForTrials("realconnect", r.N(96, 3000), func(trial int, rng *rand.Rand) {
		if r.NViolations() >= 4 {
			return
		}
		sem <- struct{}{}
		wg.Add(1)
		go func() {
			defer wg.Done()
			defer func() { <-sem }()
			realConnectCase(r, bh, trial, rng)
		}()
	})
	wg.Wait()
}
