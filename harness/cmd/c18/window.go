package main

// Mode "closewindow": Subscribe starts while Close of the reconnecting client
// is in progress.
//
// ReconnectClient wraps any client.Client; how long the wrapped client's Close
// takes is the wrapped client's business (a gRPC connection teardown may
// block). The statement covers "any timing of Close relative to Subscribe", so
// a Subscribe that begins while Close is inside the wrapped Close must still
// be ended: both calls return. The wrapped client here is the real BaseClient
// (or CacheClient) over a well-behaved blocking Impl behind a thin wrapper
// whose Close first reports that it was entered and then waits until the
// harness has seen the concurrent Subscribe reach the wrapped client (or
// return), or a few milliseconds passed.

import (
	"context"
	"fmt"
	"math/rand"
	"runtime"
	"strings"
	"sync"
	"sync/atomic"
	"time"

	"github.com/openconfig/gnmi/client"

	"verif/internal/vlib"
)

// blockImpl is a transport whose stream never carries anything: Recv blocks
// until the Subscribe context ends or Close is called.
type blockImpl struct {
	ctx    context.Context
	closed chan struct{}
	once   sync.Once
}

func (b *blockImpl) Subscribe(ctx context.Context, q client.Query) error {
	b.ctx = ctx
	return ctx.Err()
}

func (b *blockImpl) Recv() error {
	select {
	case <-b.ctx.Done():
		return b.ctx.Err()
	case <-b.closed:
		return fmt.Errorf("c18: transport closed")
	}
}

func (b *blockImpl) Close() error { b.once.Do(func() { close(b.closed) }); return nil }
func (b *blockImpl) Poll() error  { return nil }

type slowCloseClient struct {
	client.Client
	inClose   chan struct{}
	proceed   chan struct{}
	subCalled chan struct{}
	o1, o2    sync.Once
}

func (s *slowCloseClient) Close() error {
	s.o1.Do(func() { close(s.inClose) })
	<-s.proceed
	return s.Client.Close()
}

func (s *slowCloseClient) Subscribe(ctx context.Context, q client.Query, types ...string) error {
	s.o2.Do(func() { close(s.subCalled) })
	return s.Client.Subscribe(ctx, q, types...)
}

var windowSeq int64

func windowCase(r *vlib.Run, trial int, rng *rand.Rand) {
	typ := fmt.Sprintf("c18-window-%d-%d", trial, atomic.AddInt64(&windowSeq, 1))
	if err := client.Register(typ, func(ctx context.Context, d client.Destination) (client.Impl, error) {
		return &blockImpl{closed: make(chan struct{})}, nil
	}); err != nil {
		panic("c18 harness: " + err.Error())
	}
	var inner client.Client = &client.BaseClient{}
	if rng.Intn(2) == 0 {
		inner = client.New()
	}
	sc := &slowCloseClient{Client: inner, inClose: make(chan struct{}), proceed: make(chan struct{}), subCalled: make(chan struct{})}
	var disc, resets int64
	rc := client.Reconnect(sc, func() { atomic.AddInt64(&disc, 1) }, func() { atomic.AddInt64(&resets, 1) })
	q := client.Query{Addrs: []string{"c18"}, Target: "t", Queries: []client.Path{{"*"}}, Type: client.Stream,
		NotificationHandler: func(client.Notification) error { return nil }}
	// By seed Subscribe starts when Close has entered the wrapped Close (the
	// window), a little later, or a little before Close is called at all.
	variant := rng.Intn(4)
	delay := time.Duration(rng.Intn(300)) * time.Microsecond
	closeDone, subDone := make(chan struct{}), make(chan struct{})
	var subErr error
	startSub := func() {
		go func() {
			defer close(subDone)
			subErr = rc.Subscribe(context.Background(), q, typ)
		}()
	}
	if variant == 3 {
		startSub()
		time.Sleep(delay)
	}
	t0 := time.Now()
	go func() {
		defer close(closeDone)
		rc.Close()
	}()
	<-sc.inClose
	if variant != 3 {
		if variant == 2 {
			time.Sleep(delay)
		}
		startSub()
	}
	// Let Close go on once the concurrent Subscribe has reached the wrapped
	// client or has returned, or after 5 ms.
	select {
	case <-sc.subCalled:
		r.Count("closewindow_subscribe_reached_wrapped_client_during_close", 1)
	case <-subDone:
	case <-time.After(5 * time.Millisecond):
	}
	close(sc.proceed)
	r.Eval(1)
	r.Count(fmt.Sprintf("closewindow_variant_%d", variant), 1)
	deadline := time.After(grace)
	cd, sd := (<-chan struct{})(closeDone), (<-chan struct{})(subDone)
	beat0 := atomic.LoadInt64(&heartbeat)
	for cd != nil || sd != nil {
		select {
		case <-cd:
			cd = nil
		case <-sd:
			sd = nil
		case <-deadline:
			buf := make([]byte, 1<<20)
			dump := string(buf[:runtime.Stack(buf, true)])
			beats := atomic.LoadInt64(&heartbeat) - beat0
			pending := []string{}
			if cd != nil {
				pending = append(pending, "Close")
			}
			if sd != nil {
				pending = append(pending, "Subscribe")
			}
			// Attributable only if the process was running all along and the
			// pending call is parked inside the library.
			if beats < int64(grace/beatEvery)/2 || !strings.Contains(dump, "client.(*ReconnectClient)") {
				r.Inconclusive("closewindow: calls pending after the grace period but the stuck state is not attributable")
			} else {
				sig := "subscribe-started-during-close-never-returns"
				if cd != nil {
					sig = "close-never-returns"
				}
				r.Violation("closewindow", trial, sig, fmt.Sprintf("%s still pending %v (1000 x RetryMaxDelay) after Close was called on a ReconnectClient whose Subscribe started while Close was inside the wrapped client's Close (variant %d); the transport's reads return on context cancellation and on Close; disconnect callbacks %d, resets %d",
					strings.Join(pending, " and "), grace, variant, atomic.LoadInt64(&disc), atomic.LoadInt64(&resets)),
					map[string]interface{}{"variant": variant, "delay_us": delay.Microseconds(), "goroutines": truncateDump(dump)})
			}
			// hygiene: end whatever is still running
			go func() { defer func() { recover() }(); inner.Close() }()
			return
		}
	}
	_ = subErr
	r.Count("closewindow_both_returned", 1)
	r.Count("close_to_both_returned_"+bucket(time.Since(t0)), 1)
	r.Distinct(vlib.Hash("closewindow", variant, delay/(50*time.Microsecond), fmt.Sprintf("%T", inner)))
}

func truncateDump(d string) string {
	var keep []string
	for _, b := range strings.Split(d, "\n\n") {
		if strings.Contains(b, "openconfig/gnmi/client") {
			keep = append(keep, b)
		}
	}
	s := strings.Join(keep, "\n\n")
	if len(s) > 6000 {
		s = s[:6000]
	}
	return s
}

func modeCloseWindow(r *vlib.Run) {
	sem := make(chan struct{}, wide)
	var wg sync.WaitGroup
	r.ForTrials("closewindow", r.N(400, 20000), func(trial int, rng *rand.Rand) {
		if r.NViolations() >= 8 {
			return
		}
		sem <- struct{}{}
		wg.Add(1)
		go func() {
			defer wg.Done()
			defer func() { <-sem }()
			windowCase(r, trial, rng)
		}()
	})
	wg.Wait()
}
