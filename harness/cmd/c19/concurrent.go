package main

// Concurrent mode of C19: path.ToStrings / path.CompletePath and value.Equal /
// FromScalar / ToScalar are pure functions of read-only arguments, so "equal
// paths always index identically" must also hold when several goroutines
// call them at once (the subscribe server and the cache do). Every goroutine
// indexes its own stream of generated multi-key paths plus path OBJECTS that
// all goroutines read concurrently, and compares every result with the
// specification it computed itself. The verdict depends only on the values
// returned; scheduling (goroutine count, GOMAXPROCS, GC pressure) is only
// perturbation.

import (
	"fmt"
	"math/rand"
	"reflect"
	"runtime"
	"runtime/debug"
	"sync"
	"sync/atomic"

	pb "github.com/openconfig/gnmi/proto/gnmi"

	"verif/internal/model"
	"verif/internal/vlib"
)

// completeSpec is the specification of CompletePath (origin rules of the
// property statement).
func completeSpec(prefix, pth *pb.Path) (want []string, wantErr string) {
	oPre, oPath := prefix.GetOrigin(), pth.GetOrigin()
	preIdx := model.IndexPath(prefix)
	switch {
	case oPre != "" && oPath != "":
		return nil, "both-origins"
	case oPath != "" && len(preIdx) > 0:
		return nil, "path-origin-with-prefix-elems"
	}
	want = []string{}
	if oPre != "" {
		want = append(want, oPre)
	} else if oPath != "" {
		want = append(want, oPath)
	}
	want = append(want, preIdx...)
	return append(want, model.IndexPath(pth)...), ""
}

// genKeyedPath draws a path in the elem encoding with 1-4 elements of which
// at least one has 2-4 keys; every key value carries the owner's tag so that
// a value leaking from another goroutine's path is always visible.
func genKeyedPath(rng *rand.Rand, tag string) *pb.Path {
	p := &pb.Path{}
	if rng.Intn(2) == 0 {
		p.Target = tag + "-dev"
	}
	if rng.Intn(3) == 0 {
		p.Origin = []string{"openconfig", "o"}[rng.Intn(2)]
	}
	n := 1 + rng.Intn(4)
	forced := rng.Intn(n)
	for i := 0; i < n; i++ {
		e := &pb.PathElem{Name: anyName(rng)}
		nk := keyCountDist[rng.Intn(len(keyCountDist))]
		if i == forced || rng.Intn(2) == 0 {
			nk = 2 + rng.Intn(3)
		}
		if nk > 0 {
			e.Key = map[string]string{}
			for len(e.Key) < nk {
				k := anyName(rng)
				if _, dup := e.Key[k]; dup {
					continue
				}
				e.Key[k] = fmt.Sprintf("%s:%d:%s", tag, i, anyName(rng))
			}
		}
		p.Elem = append(p.Elem, e)
	}
	return p
}

type concItem struct {
	shared       bool
	prefix, p    *pb.Path
	wantNo       []string // IndexPath(p)
	wantPre      []string // IndexPrefix(p)
	wantFull     []string // CompletePath(prefix, p)
	wantFullErr  string
	wantPrefixed []string // IndexPrefix(prefix)
}

func (it *concItem) computeSpec() {
	it.wantNo = model.IndexPath(it.p)
	it.wantPre = model.IndexPrefix(it.p)
	it.wantFull, it.wantFullErr = completeSpec(it.prefix, it.p)
	it.wantPrefixed = model.IndexPrefix(it.prefix)
}

type concMismatch struct {
	sig, what string
	wit       interface{}
}

// sharedScalars are Go values all goroutines convert concurrently.
func genSharedScalars(rng *rand.Rand) []interface{} {
	kinds := []string{"string", "int", "int8", "int16", "int32", "int64", "uint", "uint8", "uint16", "uint32", "uint64",
		"float32", "float64", "bool", "[]string", "[]byte", "[]interface{}", "[]interface{}-nested"}
	out := make([]interface{}, 0, 2*len(kinds))
	for i := 0; i < 2; i++ {
		for _, k := range kinds {
			out = append(out, genScalar(k, rng))
		}
	}
	return out
}

var (
	concPoolOnce sync.Once
	concPoolA    []*pb.TypedValue
	concPoolB    []*pb.TypedValue
)

func concurrentTrial(r *vlib.Run, trial int, rng *rand.Rand) {
	concPoolOnce.Do(func() { concPoolA, concPoolB = buildPool(r) })
	nG := 4 + rng.Intn(13) // 4..16 goroutines
	procs := []int{1, 2, 2, 3, 4, 4, 8, 16}[rng.Intn(8)]
	iters := r.N(36000, 120000)
	valueIters := r.N(1500, 5000)
	gcPct := []int{5, 20, 100}[rng.Intn(3)]

	// Shared, read-only inputs.
	const nShared = 8
	sharedP := make([]*pb.Path, nShared)
	sharedPre := make([]*pb.Path, nShared)
	for i := range sharedP {
		sharedP[i] = genKeyedPath(rng, fmt.Sprintf("S%d", i))
		sharedPre[i] = genKeyedPath(rng, fmt.Sprintf("SP%d", i))
		if rng.Intn(2) == 0 {
			sharedP[i].Origin = ""
		}
	}
	scalars := genSharedScalars(rng)
	seeds := make([]int64, nG)
	for g := range seeds {
		seeds[g] = rng.Int63()
	}

	oldProcs := runtime.GOMAXPROCS(procs)
	oldGC := debug.SetGCPercent(gcPct)
	defer func() {
		runtime.GOMAXPROCS(oldProcs)
		debug.SetGCPercent(oldGC)
	}()

	var (
		mu         sync.Mutex
		mismatches []concMismatch
		nMismatch  int64
		pathCalls  int64
		valueCalls int64
		sharedHits int64
	)
	fail := func(sig, what string, wit interface{}) {
		atomic.AddInt64(&nMismatch, 1)
		mu.Lock()
		if len(mismatches) < 6 {
			mismatches = append(mismatches, concMismatch{sig, what, wit})
		}
		mu.Unlock()
	}
	start := make(chan struct{})
	var wg sync.WaitGroup
	for g := 0; g < nG; g++ {
		g := g
		wg.Add(1)
		go func() {
			defer wg.Done()
			grng := rand.New(rand.NewSource(seeds[g]))
			tag := fmt.Sprintf("g%d", g)
			// Own stream + the shared objects; the specification is computed here,
			// by the goroutine that will compare against it.
			items := make([]*concItem, 0, 24+nShared)
			for i := 0; i < 24; i++ {
				it := &concItem{p: genKeyedPath(grng, tag), prefix: genKeyedPath(grng, tag+"p")}
				switch grng.Intn(4) {
				case 0:
					it.prefix = &pb.Path{Target: tag, Origin: it.prefix.Origin}
				case 1:
					it.p.Origin = ""
				}
				items = append(items, it)
			}
			for i := 0; i < nShared; i++ {
				items = append(items, &concItem{shared: true, p: sharedP[i], prefix: sharedPre[i]})
			}
			for _, it := range items {
				it.computeSpec()
			}
			<-start
			var calls, sh int64
			step := func(k int) {
				it := items[(k/4)%len(items)]
				if it.shared {
					sh++
				}
				calls++
				desc := func() map[string]interface{} {
					return map[string]interface{}{"goroutine": g, "goroutines": nG, "gomaxprocs": procs, "shared_object": it.shared, "path": wPath(it.p), "prefix": wPath(it.prefix), "call_no": k}
				}
				// A result that cannot even be read (e.g. a torn string header
				// produced by a data race inside the code under test) faults in the
				// comparison below; that is a wrong result, not a harness failure.
				defer func() {
					if rec := recover(); rec != nil {
						fail("tostrings:concurrent-corrupt-result",
							fmt.Sprintf("goroutine %d of %d (GOMAXPROCS %d, shared object: %v): the index returned for path{%s} / prefix{%s} (call kind %d of ToStrings no-prefix, ToStrings prefix, ToStrings of the prefix, CompletePath) could not be read: %v",
								g, nG, procs, it.shared, canon(it.p), canon(it.prefix), k%4, rec), desc())
					}
				}()
				switch k % 4 {
				case 0, 1:
					pre := k%4 == 1
					want := it.wantNo
					if pre {
						want = it.wantPre
					}
					got, pan := callToStrings(it.p, pre)
					if pan != nil {
						fail("panic:tostrings-concurrent", fmt.Sprintf("ToStrings(%s, prefix=%v) panicked while %d goroutines were indexing: %v", canon(it.p), pre, nG, pan), desc())
					} else if !eqStrs(got, want) {
						fail("tostrings:concurrent-differs-from-spec",
							fmt.Sprintf("goroutine %d of %d (GOMAXPROCS %d, shared object: %v): ToStrings(%s, prefix=%v) = %s, specification %s — the same call is correct when made alone",
								g, nG, procs, it.shared, canon(it.p), pre, q(got), q(want)), desc())
					}
				case 2:
					got, pan := callToStrings(it.prefix, true)
					if pan != nil {
						fail("panic:tostrings-concurrent", fmt.Sprintf("ToStrings(%s, prefix=true) panicked while %d goroutines were indexing: %v", canon(it.prefix), nG, pan), desc())
					} else if !eqStrs(got, it.wantPrefixed) {
						fail("tostrings:concurrent-differs-from-spec",
							fmt.Sprintf("goroutine %d of %d (GOMAXPROCS %d, shared object: %v): ToStrings(%s, prefix=true) = %s, specification %s — the same call is correct when made alone",
								g, nG, procs, it.shared, canon(it.prefix), q(got), q(it.wantPrefixed)), desc())
					}
				default:
					got, err, pan := callCompletePath(it.prefix, it.p)
					switch {
					case pan != nil:
						fail("panic:completepath-concurrent", fmt.Sprintf("CompletePath(prefix{%s}, path{%s}) panicked while %d goroutines were indexing: %v", canon(it.prefix), canon(it.p), nG, pan), desc())
					case (it.wantFullErr != "") != (err != nil):
						fail("completepath:concurrent-differs-from-spec",
							fmt.Sprintf("goroutine %d of %d: CompletePath(prefix{%s}, path{%s}) error = %v, specification: error class %q", g, nG, canon(it.prefix), canon(it.p), err, it.wantFullErr), desc())
					case err == nil && !eqStrs(got, it.wantFull):
						fail("completepath:concurrent-differs-from-spec",
							fmt.Sprintf("goroutine %d of %d (GOMAXPROCS %d, shared object: %v): CompletePath(prefix{%s}, path{%s}) = %s, specification %s — the same call is correct when made alone",
								g, nG, procs, it.shared, canon(it.prefix), canon(it.p), q(got), q(it.wantFull)), desc())
					}
				}
			}
			for k := 0; k < iters; k++ {
				step(k)
			}
			atomic.AddInt64(&pathCalls, calls)
			atomic.AddInt64(&sharedHits, sh)

			// value.* on shared read-only values, same oracles as the sequential modes.
			var vcalls int64
			n := len(concPoolA)
			for k := 0; k < valueIters; k++ {
				i, j := grng.Intn(n), grng.Intn(n)
				a, b := concPoolA[i], concPoolB[j]
				ab, pan1 := callEqual(a, b)
				ba, pan2 := callEqual(b, a)
				vcalls += 2
				vwf := func() map[string]interface{} {
					return map[string]interface{}{"a": tvStr(a), "b": tvStr(b), "goroutine": g, "goroutines": nG}
				}
				switch {
				case pan1 != nil || pan2 != nil:
					fail("panic:equal-concurrent", fmt.Sprintf("Equal on shared values %s, %s panicked: %v %v", tvStr(a), tvStr(b), pan1, pan2), vwf())
				case ab != ba:
					fail("equal:concurrent-asymmetric", fmt.Sprintf("Equal(a,b)=%v but Equal(b,a)=%v for shared a=%s b=%s", ab, ba, tvStr(a), tvStr(b)), vwf())
				case ab && !sameContent(a, b):
					fail("equal:concurrent-unsound", fmt.Sprintf("Equal reports shared values %s and %s as equal although arm or content differ", tvStr(a), tvStr(b)), vwf())
				}
				x := scalars[k%len(scalars)]
				want, ok := widen(x)
				if !ok {
					continue
				}
				tv, err, pan := callFromScalar(x)
				vcalls++
				if pan != nil || err != nil || tv == nil || arm(tv) != wantArm(x) {
					xd := fmt.Sprintf("%T(%#v)", x, x)
					fail("scalar:concurrent-roundtrip", fmt.Sprintf("FromScalar(%s) on a shared value: tv=%v err=%v panic=%v, want arm %s", xd, tv, err, pan, wantArm(x)), map[string]interface{}{"go_value": xd})
					continue
				}
				got, err, pan := callToScalar(tv)
				vcalls++
				if pan != nil || err != nil || !sameScalar(got, want) {
					xd := fmt.Sprintf("%T(%#v)", x, x)
					fail("scalar:concurrent-roundtrip", fmt.Sprintf("ToScalar(FromScalar(%s)) on a shared value = %T(%#v) err=%v panic=%v, want %T(%#v)", xd, got, got, err, pan, want, want), map[string]interface{}{"go_value": xd})
				}
				// ToScalar on a TypedValue that all goroutines read.
				if sv := concPoolA[i]; sv != nil {
					g1, e1, p1 := callToScalar(sv)
					g2, e2, p2 := callToScalar(concPoolB[i])
					vcalls += 2
					if p1 != nil || p2 != nil || (e1 == nil) != (e2 == nil) || (e1 == nil && !sameDecoded(g1, g2)) {
						fail("scalar:concurrent-toscalar", fmt.Sprintf("ToScalar of two copies of the shared value %s disagree: %#v (err %v, panic %v) vs %#v (err %v, panic %v)", tvStr(sv), g1, e1, p1, g2, e2, p2), map[string]interface{}{"value": tvStr(sv)})
					}
				}
			}
			atomic.AddInt64(&valueCalls, vcalls)
		}()
	}
	close(start)
	wg.Wait()

	r.Eval(1)
	r.Count("concurrent_trials", 1)
	r.Count("concurrent_goroutines_started", int64(nG))
	r.Count("concurrent_path_calls", pathCalls)
	r.Count("concurrent_path_calls_on_shared_objects", sharedHits)
	r.Count("concurrent_value_calls", valueCalls)
	r.Count("concurrent_mismatches", nMismatch)
	r.Count(fmt.Sprintf("concurrent_path_calls_gomaxprocs_%02d", procs), pathCalls)
	if nMismatch > 0 {
		r.Count(fmt.Sprintf("concurrent_mismatches_gomaxprocs_%02d_gcpercent_%d", procs, gcPct), nMismatch)
	}
	r.SetAdd("concurrent_configs_goroutines_x_gomaxprocs", fmt.Sprintf("g%d-p%d", nG, procs))
	r.Distinct(vlib.Hash("conc", trial, nG, procs, gcPct))
	for _, m := range mismatches {
		r.Violation("concurrent", trial, m.sig, m.what, m.wit)
	}
	if r.WantSample() && trial%16 == 0 {
		r.Sample(map[string]interface{}{"mode": "concurrent", "trial": trial, "goroutines": nG, "gomaxprocs": procs, "gc_percent": gcPct, "path_calls": pathCalls, "value_calls": valueCalls, "mismatches": nMismatch})
	}
}

// sameDecoded compares two ToScalar results of equal TypedValues (JSON arms
// decode to DeprecatedScalar wrappers around arbitrary decoded JSON).
func sameDecoded(a, b interface{}) bool {
	return reflect.DeepEqual(a, b) || fmt.Sprintf("%#v", a) == fmt.Sprintf("%#v", b)
}
