// C19 — Path indexing and value conversion are deterministic, faithful and total.
//
// Generated-input oracle checks against the real path.ToStrings,
// path.CompletePath, gnmi client ToSubscribeRequest (followed by the wire and
// the server-side indexing functions), value.FromScalar / ToScalar / Equal.
// Specifications: model.IndexPath / model.IndexPrefix for the index form, and
// small functions in this file written from the property statement (origin
// rules, widening rules, "same arm and same content").
package main

import (
	"bytes"
	"fmt"
	"math"
	"math/big"
	"math/rand"
	"reflect"
	"sort"
	"strings"
	"unicode"
	"unicode/utf8"

	"google.golang.org/protobuf/encoding/prototext"
	"google.golang.org/protobuf/proto"
	"google.golang.org/protobuf/types/known/anypb"

	"github.com/openconfig/gnmi/client"
	gclient "github.com/openconfig/gnmi/client/gnmi"
	"github.com/openconfig/gnmi/path"
	pb "github.com/openconfig/gnmi/proto/gnmi"
	"github.com/openconfig/gnmi/value"

	"verif/internal/model"
	"verif/internal/vlib"
)

// ---------------------------------------------------------------------------
// helpers

func eqStrs(a, b []string) bool {
	if len(a) != len(b) {
		return false
	}
	for i := range a {
		if a[i] != b[i] {
			return false
		}
	}
	return true
}

func q(ss []string) string { return fmt.Sprintf("%q", ss) }

type elemW struct {
	Name string            `json:"name"`
	Key  map[string]string `json:"key,omitempty"`
}

type pathW struct {
	Nil     bool     `json:"nil,omitempty"`
	Target  string   `json:"target,omitempty"`
	Origin  string   `json:"origin,omitempty"`
	Elem    []elemW  `json:"elem,omitempty"`
	Element []string `json:"element,omitempty"`
}

func wPath(p *pb.Path) *pathW {
	if p == nil {
		return &pathW{Nil: true}
	}
	w := &pathW{Target: p.Target, Origin: p.Origin, Element: p.Element}
	for _, e := range p.Elem {
		w.Elem = append(w.Elem, elemW{Name: e.GetName(), Key: e.GetKey()})
	}
	return w
}

// canon renders a path canonically (keys sorted) for hashing and messages.
func canon(p *pb.Path) string {
	if p == nil {
		return "<nil>"
	}
	var b strings.Builder
	fmt.Fprintf(&b, "target=%q origin=%q elem=[", p.Target, p.Origin)
	for _, e := range p.Elem {
		fmt.Fprintf(&b, "%q", e.GetName())
		ks := make([]string, 0, len(e.GetKey()))
		for k := range e.GetKey() {
			ks = append(ks, k)
		}
		sort.Strings(ks)
		for _, k := range ks {
			fmt.Fprintf(&b, "[%q=%q]", k, e.Key[k])
		}
		b.WriteByte(' ')
	}
	fmt.Fprintf(&b, "] element=%q", p.Element)
	return b.String()
}

// rebuild makes a deep copy that shares nothing with p; key maps are filled in
// ascending or descending key order (a different insertion history than p's).
func rebuild(p *pb.Path, descending bool) *pb.Path {
	if p == nil {
		return nil
	}
	c := &pb.Path{Target: strings.Clone(p.Target), Origin: strings.Clone(p.Origin)}
	for _, e := range p.Elem {
		ne := &pb.PathElem{Name: strings.Clone(e.GetName())}
		if e.GetKey() != nil {
			ks := make([]string, 0, len(e.Key))
			for k := range e.Key {
				ks = append(ks, k)
			}
			sort.Strings(ks)
			if descending {
				for i, j := 0, len(ks)-1; i < j; i, j = i+1, j-1 {
					ks[i], ks[j] = ks[j], ks[i]
				}
			}
			ne.Key = make(map[string]string)
			for _, k := range ks {
				ne.Key[strings.Clone(k)] = strings.Clone(e.Key[k])
			}
		}
		c.Elem = append(c.Elem, ne)
	}
	for _, s := range p.Element {
		c.Element = append(c.Element, strings.Clone(s))
	}
	return c
}

// ---------------------------------------------------------------------------
// generators

var anyRunes = []rune{'a', 'b', 'c', 'A', 'B', 'z', '0', '1', '/', '/', '[', ']', '=', '\\', ' ', '\t', '*', '.', ':', '-', '_',
	'é', 'ß', '日', '本', '😀', '\u00a0', '\ufffd', '\x00', '\x7f', '"', '\n'}

var smallNames = []string{"a", "b", "c", "/", "a/b", "*", "b/", "/a", "aa", "B", "A", "name", "Name"} // incl. names that differ only in case

// anyName: arbitrary valid UTF-8, '/' and the characters that are special in
// path strings included; empty with probability 1/10.
func anyName(rng *rand.Rand) string {
	switch x := rng.Intn(10); {
	case x == 0:
		return ""
	case x <= 3:
		return smallNames[rng.Intn(len(smallNames))]
	}
	n := 1 + rng.Intn(5)
	rs := make([]rune, n)
	for i := range rs {
		rs[i] = anyRunes[rng.Intn(len(anyRunes))]
	}
	return string(rs)
}

var keyCountDist = []int{0, 0, 0, 0, 0, 0, 0, 0, 1, 1, 1, 1, 2, 2, 2, 3, 3, 3, 4, 4}

func genElems(rng *rand.Rand, n int) []*pb.PathElem {
	out := make([]*pb.PathElem, 0, n)
	for i := 0; i < n; i++ {
		e := &pb.PathElem{Name: anyName(rng)}
		nk := keyCountDist[rng.Intn(len(keyCountDist))]
		if nk > 0 {
			e.Key = map[string]string{}
			for len(e.Key) < nk {
				k := anyName(rng)
				if _, dup := e.Key[k]; dup {
					continue
				}
				e.Key[k] = anyName(rng)
			}
		} else if rng.Intn(8) == 0 {
			e.Key = map[string]string{} // present but empty
		}
		out = append(out, e)
	}
	return out
}

func genNames(rng *rand.Rand, n int) []string {
	out := make([]string, n)
	for i := range out {
		out[i] = anyName(rng)
	}
	return out
}

// genPath draws a path: nil (if allowed), elem encoding, deprecated element
// encoding, both (with different contents) or neither; 0..maxElems elements;
// target / origin present or not.
func genPath(rng *rand.Rand, nilOK bool, zeroElemsPct int) *pb.Path {
	if nilOK && rng.Intn(40) == 0 {
		return nil
	}
	p := &pb.Path{}
	if rng.Intn(2) == 0 {
		p.Target = anyName(rng)
	}
	if rng.Intn(2) == 0 {
		p.Origin = anyName(rng)
	}
	n := 0
	if rng.Intn(100) >= zeroElemsPct {
		n = 1 + rng.Intn(5)
	}
	switch x := rng.Intn(10); {
	case x <= 5:
		p.Elem = genElems(rng, n)
	case x <= 7:
		p.Element = genNames(rng, n)
	case x == 8:
		p.Elem = genElems(rng, n)
		p.Element = genNames(rng, 1+rng.Intn(4))
	default:
		// neither encoding
	}
	return p
}

type pathFeatures struct {
	enc                                       string
	multiKey, singleKey, slashName, emptyName bool
	target, origin                            bool
	firstMulti                                map[string]string
}

func features(p *pb.Path) pathFeatures {
	var f pathFeatures
	switch {
	case p == nil:
		f.enc = "nil"
	case len(p.Elem) > 0 && len(p.Element) > 0:
		f.enc = "both"
	case len(p.Elem) > 0:
		f.enc = "elem"
	case len(p.Element) > 0:
		f.enc = "element"
	default:
		f.enc = "none"
	}
	f.target, f.origin = p.GetTarget() != "", p.GetOrigin() != ""
	note := func(s string) {
		if s == "" {
			f.emptyName = true
		}
		if strings.Contains(s, "/") {
			f.slashName = true
		}
	}
	for _, e := range p.GetElem() {
		note(e.GetName())
		switch len(e.GetKey()) {
		case 0:
		case 1:
			f.singleKey = true
		default:
			f.multiKey = true
			if f.firstMulti == nil {
				f.firstMulti = e.Key
			}
		}
	}
	if len(p.GetElem()) == 0 {
		for _, s := range p.GetElement() {
			note(s)
		}
	}
	return f
}

// mapOrderVaries reports whether ranging over m 32 times showed more than one order
// (evidence that the repetition really exercises different iteration orders).
func mapOrderVaries(m map[string]string) bool {
	first := ""
	for i := 0; i < 32; i++ {
		var b strings.Builder
		for k := range m {
			b.WriteString(k)
			b.WriteByte(0)
		}
		if i == 0 {
			first = b.String()
		} else if b.String() != first {
			return true
		}
	}
	return false
}

// ---------------------------------------------------------------------------
// ToStrings

func callToStrings(p *pb.Path, pre bool) (out []string, pan interface{}) {
	defer func() {
		if r := recover(); r != nil {
			pan = r
		}
	}()
	return path.ToStrings(p, pre), nil
}

const reps = 32

func toStringsTrial(r *vlib.Run, trial int, rng *rand.Rand) {
	p := genPath(rng, true, 10)
	f := features(p)
	variants := []*pb.Path{p}
	if p != nil {
		variants = append(variants, proto.Clone(p).(*pb.Path), rebuild(p, false), rebuild(p, true))
	}
	r.Count("tostrings_paths", 1)
	r.Count("tostrings_enc_"+f.enc, 1)
	if f.multiKey {
		r.Count("tostrings_paths_with_multi_key_elem", 1)
		if mapOrderVaries(f.firstMulti) {
			r.Count("tostrings_multi_key_paths_where_harness_saw_map_order_vary", 1)
		}
	}
	if f.singleKey {
		r.Count("tostrings_paths_with_single_key_elem", 1)
	}
	if f.slashName {
		r.Count("tostrings_paths_with_slash_in_name", 1)
	}
	if f.emptyName {
		r.Count("tostrings_paths_with_empty_name", 1)
	}
	if f.target {
		r.Count("tostrings_paths_with_target", 1)
	}
	if f.origin {
		r.Count("tostrings_paths_with_origin", 1)
	}
	calls := int64(0)
	nontrivial := false
	for _, pre := range []bool{false, true} {
		var want []string
		if pre {
			want = model.IndexPrefix(p)
		} else {
			want = model.IndexPath(p)
		}
		if len(want) > 0 {
			nontrivial = true
		}
		r.Eval(1)
		var first []string
		have, bad := false, false
	variantsLoop:
		for vi, v := range variants {
			n := reps
			if vi > 0 && !f.multiKey {
				n = 2
			}
			for k := 0; k < n; k++ {
				got, pan := callToStrings(v, pre)
				calls++
				if pan != nil {
					r.Violation("tostrings", trial, "panic:tostrings", fmt.Sprintf("ToStrings(%s, prefix=%v) panicked: %v", canon(p), pre, pan),
						map[string]interface{}{"path": wPath(p), "prefix": pre})
					bad = true
					break variantsLoop
				}
				if !have {
					first, have = got, true
					continue
				}
				if !eqStrs(got, first) {
					r.Violation("tostrings", trial, "tostrings:unstable",
						fmt.Sprintf("ToStrings(%s, prefix=%v) is not a function of the path: evaluation 1 on the original gave %s, evaluation %d on copy %d (0=original, 1=proto.Clone, 2/3=rebuilt with ascending/descending key insertion) gave %s; specification: %s",
							canon(p), pre, q(first), k+1, vi, q(got), q(want)),
						map[string]interface{}{"path": wPath(p), "prefix": pre, "first": first, "other": got, "spec": want})
					bad = true
					break variantsLoop
				}
			}
		}
		if !bad && !eqStrs(first, want) {
			sig := "tostrings:differs-from-spec"
			r.Violation("tostrings", trial, sig,
				fmt.Sprintf("ToStrings(%s, prefix=%v) = %s, specification (target, origin when requested and non-empty; per elem the name then the key values ordered by key name; element only when elem is empty) gives %s",
					canon(p), pre, q(first), q(want)),
				map[string]interface{}{"path": wPath(p), "prefix": pre, "got": first, "spec": want})
		}
	}
	r.Count("tostrings_calls", calls)
	if nontrivial {
		r.Distinct(vlib.Hash("ts", canon(p)))
	}
	if r.WantSample() && trial%997 == 0 && f.multiKey {
		r.Sample(map[string]interface{}{"mode": "tostrings", "trial": trial, "path": wPath(p), "index_with_prefix": model.IndexPrefix(p)})
	}
}

// ---------------------------------------------------------------------------
// CompletePath

func callCompletePath(prefix, p *pb.Path) (out []string, err error, pan interface{}) {
	defer func() {
		if r := recover(); r != nil {
			pan = r
		}
	}()
	out, err = path.CompletePath(prefix, p)
	return out, err, nil
}

func completePathTrial(r *vlib.Run, trial int, rng *rand.Rand) {
	origins := []string{"", "", "", "openconfig", "o", "a/b"}
	mk := func() *pb.Path {
		p := genPath(rng, true, 45)
		if p != nil {
			p.Origin = origins[rng.Intn(len(origins))]
		}
		return p
	}
	prefix, pth := mk(), mk()
	oPre, oPath := prefix.GetOrigin(), pth.GetOrigin()
	preIdx := model.IndexPath(prefix)
	wantErr := ""
	var want []string
	switch {
	case oPre != "" && oPath != "":
		wantErr = "both-origins"
	case oPath != "" && len(preIdx) > 0:
		wantErr = "path-origin-with-prefix-elems"
	default:
		if oPre != "" {
			want = append(want, oPre)
		} else if oPath != "" {
			want = append(want, oPath)
		}
		want = append(want, preIdx...)
		want = append(want, model.IndexPath(pth)...)
	}
	branch := wantErr
	if branch == "" {
		switch {
		case oPre != "":
			branch = "ok-prefix-origin"
		case oPath != "":
			branch = "ok-path-origin"
		default:
			branch = "ok-no-origin"
		}
	}
	r.Count("completepath_"+branch, 1)
	r.Eval(1)
	r.Distinct(vlib.Hash("cp", canon(prefix), canon(pth)))
	wit := map[string]interface{}{"prefix": wPath(prefix), "path": wPath(pth)}
	type pair struct{ a, b *pb.Path }
	variants := []pair{{prefix, pth}, {rebuild(prefix, true), rebuild(pth, true)}}
	if prefix != nil && pth != nil {
		variants = append(variants, pair{proto.Clone(prefix).(*pb.Path), proto.Clone(pth).(*pb.Path)})
	}
	for vi, v := range variants {
		for k := 0; k < 8; k++ {
			got, err, pan := callCompletePath(v.a, v.b)
			r.Count("completepath_calls", 1)
			desc := fmt.Sprintf("CompletePath(prefix{%s}, path{%s}) [copy %d, evaluation %d]", canon(prefix), canon(pth), vi, k+1)
			switch {
			case pan != nil:
				r.Violation("completepath", trial, "panic:completepath", fmt.Sprintf("%s panicked: %v", desc, pan), wit)
				return
			case wantErr != "" && err == nil:
				r.Violation("completepath", trial, "completepath:"+wantErr+"-accepted",
					fmt.Sprintf("%s returned %s without an error; conflicting origins (%s) must be rejected", desc, q(got), wantErr), wit)
				return
			case wantErr == "" && err != nil:
				r.Violation("completepath", trial, "completepath:unexpected-error",
					fmt.Sprintf("%s returned error %q; the origins do not conflict, expected %s", desc, err, q(want)), wit)
				return
			case wantErr == "" && !eqStrs(got, want):
				r.Violation("completepath", trial, "completepath:index",
					fmt.Sprintf("%s = %s, expected origin + prefix index + path index = %s", desc, q(got), q(want)), wit)
				return
			}
		}
	}
	if r.WantSample() && trial%1999 == 0 {
		r.Sample(map[string]interface{}{"mode": "completepath", "trial": trial, "prefix": wPath(prefix), "path": wPath(pth), "branch": branch, "expected": want})
	}
}

// ---------------------------------------------------------------------------
// client round trip

// "Plain" element as fixed by DESIGN.md: non-empty, valid UTF-8, none of
// [ ] \ = and no whitespace; '/' allowed anywhere.
func isPlain(e string) bool {
	if e == "" || !utf8.ValidString(e) {
		return false
	}
	for _, c := range e {
		if c == '[' || c == ']' || c == '\\' || c == '=' || unicode.IsSpace(c) {
			return false
		}
	}
	return true
}

var plainRunes = []rune{'a', 'b', 'c', 'x', 'Z', '0', '9', '/', '/', '/', '*', '.', ':', '-', '_', '"', '\'', '@', '#', '$', '%', '&',
	'(', ')', '{', '}', '<', '>', ',', ';', '?', '!', '^', '~', '|', '+', '`', 'é', 'ß', '日', '😀', '\ufffd', '\x00', '\x01', '\x7f', '\u200b'}

var simplePlain = []string{"a", "b", "c", "interfaces", "interface", "state", "*", "eth0", "openconfig-interfaces:interfaces", "..."}
var slashShapes = []string{"/a", "a/b", "a//b", "//a", "a/b/c", "/a/b", "Ethernet1/2/3", "a/", "/", "//", "a/b/", "/a/"}

func plainElem(rng *rand.Rand) string {
	for {
		var e string
		switch x := rng.Intn(4); x {
		case 0:
			e = simplePlain[rng.Intn(len(simplePlain))]
		case 1:
			e = slashShapes[rng.Intn(len(slashShapes))]
		default:
			n := 1 + rng.Intn(6)
			rs := make([]rune, n)
			for i := range rs {
				rs[i] = plainRunes[rng.Intn(len(plainRunes))]
			}
			e = string(rs)
		}
		if isPlain(e) {
			return e
		}
	}
}

func genQueryPath(rng *rand.Rand) client.Path {
	n := rng.Intn(6)
	p := make(client.Path, n)
	for i := range p {
		p[i] = plainElem(rng)
	}
	// Keep the known-finding class (last element ends in '/') to a few percent
	// of the paths so that the bulk of the inputs is judged on everything else.
	if n > 0 && strings.HasSuffix(p[n-1], "/") && rng.Intn(5) != 0 {
		s := strings.TrimRight(p[n-1], "/")
		if s == "" {
			s = "a"
		}
		p[n-1] = s
	}
	return p
}

func callToSubReq(qu client.Query) (sr *pb.SubscribeRequest, err error, pan interface{}) {
	defer func() {
		if r := recover(); r != nil {
			pan = r
		}
	}()
	sr, err = gclient.ToSubscribeRequest(qu)
	return sr, err, nil
}

// serverIndex is what the server computes from a received subscription:
// path.ToStrings(path, false) (match registration, subscribe.addSubscription)
// and path.CompletePath(prefix, path) (cache query, processSubscription).
func serverIndex(prefix, p *pb.Path) (idx, full []string, err error, pan interface{}) {
	defer func() {
		if r := recover(); r != nil {
			pan = r
		}
	}()
	idx = path.ToStrings(p, false)
	full, err = path.CompletePath(prefix, p)
	return
}

// roundTrip drives one query through the real client conversion, the wire and
// the server-side indexing and judges every subscription path.
func roundTrip(r *vlib.Run, mode string, trial int, qu client.Query) {
	r.Eval(1)
	r.Count("client_queries", 1)
	wit := map[string]interface{}{"target": qu.Target, "queries": qu.Queries, "type": qu.Type.String()}
	sr, err, pan := callToSubReq(qu)
	if pan != nil {
		r.Violation(mode, trial, "panic:client-tosubscriberequest", fmt.Sprintf("ToSubscribeRequest(queries=%q) panicked: %v", qu.Queries, pan), wit)
		return
	}
	if err != nil {
		r.Violation(mode, trial, "client-roundtrip:error", fmt.Sprintf("ToSubscribeRequest(queries=%q) failed for plain elements: %v", qu.Queries, err), wit)
		return
	}
	// Through the wire, as the server would receive it.
	b, merr := proto.Marshal(sr)
	if merr != nil {
		r.Violation(mode, trial, "client-roundtrip:unmarshalable", fmt.Sprintf("SubscribeRequest produced for queries=%q cannot be marshalled: %v", qu.Queries, merr), wit)
		return
	}
	rx := &pb.SubscribeRequest{}
	if uerr := proto.Unmarshal(b, rx); uerr != nil {
		r.Violation(mode, trial, "client-roundtrip:unmarshalable", fmt.Sprintf("SubscribeRequest produced for queries=%q cannot be unmarshalled: %v", qu.Queries, uerr), wit)
		return
	}
	sl := rx.GetSubscribe()
	if sl == nil || len(sl.GetSubscription()) != len(qu.Queries) {
		r.Violation(mode, trial, "client-roundtrip:shape", fmt.Sprintf("queries=%q produced %d subscriptions, want %d", qu.Queries, len(sl.GetSubscription()), len(qu.Queries)), wit)
		return
	}
	wantPre := []string{}
	if qu.Target != "" {
		wantPre = append(wantPre, qu.Target)
	}
	if gotPre, pan := callToStrings(sl.GetPrefix(), true); pan != nil || !eqStrs(gotPre, wantPre) {
		r.Violation(mode, trial, "client-roundtrip:prefix", fmt.Sprintf("query target %q reaches the server as prefix index %s (panic: %v), want %s", qu.Target, q(gotPre), pan, q(wantPre)), wit)
		return
	}
	nontrivial := false
	for i, want := range qu.Queries {
		sp := sl.Subscription[i].GetPath()
		idx, full, cerr, pan := serverIndex(sl.GetPrefix(), sp)
		r.Count("client_paths", 1)
		lastSlash := len(want) > 0 && strings.HasSuffix(want[len(want)-1], "/")
		if lastSlash {
			r.Count("client_paths_last_elem_ends_in_slash", 1)
		}
		slashElsewhere := false
		for k, e := range want {
			if strings.Contains(e, "/") && !(k == len(want)-1 && lastSlash) {
				slashElsewhere = true
			}
			if k == len(want)-1 && lastSlash && strings.Contains(strings.TrimRight(e, "/"), "/") {
				slashElsewhere = true
			}
		}
		if slashElsewhere {
			r.Count("client_paths_with_slash_not_at_the_very_end", 1)
		}
		if len(want) > 0 {
			nontrivial = true
		}
		pw := map[string]interface{}{"target": qu.Target, "queries": qu.Queries, "type": qu.Type.String(), "failing_path_index": i, "query_path": []string(want), "server_index": idx, "server_full_path": full}
		if pan != nil {
			r.Violation(mode, trial, "panic:server-index", fmt.Sprintf("indexing the subscription path produced for %q panicked: %v", []string(want), pan), pw)
			continue
		}
		okIdx := eqStrs(idx, want)
		okFull := cerr == nil && eqStrs(full, want)
		// The server-side functions are themselves under test (tostrings /
		// completepath modes); judge the produced message by the specification too.
		okSpec := eqStrs(model.IndexPath(sp), want)
		if okIdx && okFull && okSpec {
			if lastSlash {
				r.Count("client_paths_last_elem_ends_in_slash_relayed_correctly", 1)
			}
			r.Count("client_paths_relayed_correctly", 1)
			continue
		}
		// Classify by the input and the kind of failure: D18 = the last query
		// element ends in '/' and exactly that element is lost.
		lostLast := lastSlash && eqStrs(idx, want[:len(want)-1]) && cerr == nil && eqStrs(full, want[:len(want)-1])
		sig := "client-roundtrip:other"
		if lostLast {
			sig = "client-roundtrip:last-element-ends-in-slash"
			r.Count("client_paths_last_elem_ends_in_slash_lost", 1)
		}
		r.Violation(mode, trial, sig,
			fmt.Sprintf("query path %q (plain elements) reaches the server as index %s, full path %s (CompletePath error: %v), specification index of the produced message %s; produced path: %s",
				[]string(want), q(idx), q(full), cerr, q(model.IndexPath(sp)), canon(sp)), pw)
	}
	if nontrivial {
		r.Distinct(vlib.Hash("rt", qu.Target, fmt.Sprintf("%q", qu.Queries)))
	}
}

func clientTrial(r *vlib.Run, trial int, rng *rand.Rand) {
	qu := client.Query{Type: []client.Type{client.Once, client.Stream, client.Poll}[rng.Intn(3)], UpdatesOnly: rng.Intn(4) == 0}
	if rng.Intn(3) != 0 {
		qu.Target = anyName(rng)
	}
	n := 1 + rng.Intn(3)
	for i := 0; i < n; i++ {
		qu.Queries = append(qu.Queries, genQueryPath(rng))
	}
	roundTrip(r, "client", trial, qu)
	if r.WantSample() && trial%2999 == 0 {
		r.Sample(map[string]interface{}{"mode": "client", "trial": trial, "target": qu.Target, "queries": qu.Queries})
	}
}

// Enumerated small scope: every path of 1..2 elements over this alphabet, as
// a single-path query. Covers '/' at the start, in the middle, doubled, at the
// end of a non-last element and at the end of the last element (D18).
var directedAlphabet = []string{"a", "b/", "/a", "a/b", "/", "a//b", "*"}

func directedClient(r *vlib.Run) {
	var paths []client.Path
	for _, a := range directedAlphabet {
		paths = append(paths, client.Path{a})
	}
	for _, a := range directedAlphabet {
		for _, b := range directedAlphabet {
			paths = append(paths, client.Path{a, b})
		}
	}
	for i, p := range paths {
		if !r.Mine(i) {
			continue
		}
		r.Count("client_enumerated_paths", 1)
		roundTrip(r, "client-enumerated", i, client.Query{Target: "dev", Type: client.Once, Queries: []client.Path{p}})
	}
}

// ---------------------------------------------------------------------------
// scalar round trip

var scalarKinds = []string{"string", "string-invalid-utf8", "int", "int8", "int16", "int32", "int64", "uint", "uint8", "uint16", "uint32", "uint64",
	"float32", "float64", "bool", "[]string", "[]byte", "[]interface{}", "[]interface{}-nested", "[]interface{}-invalid-utf8", "[]string-invalid-utf8", "unsupported"}

func randI64(rng *rand.Rand) int64 {
	switch rng.Intn(4) {
	case 0:
		return []int64{0, 1, -1, math.MaxInt64, math.MinInt64, math.MaxInt32, math.MinInt32, math.MaxInt32 + 1, math.MinInt32 - 1, 127, -128, 128, 32767, -32768, 1 << 53, -(1 << 53) - 1}[rng.Intn(16)]
	case 1:
		return int64(rng.Intn(2001) - 1000)
	}
	return int64(rng.Uint64())
}

func randU64(rng *rand.Rand) uint64 {
	switch rng.Intn(4) {
	case 0:
		return []uint64{0, 1, math.MaxUint64, math.MaxUint32, math.MaxUint32 + 1, math.MaxInt64, math.MaxInt64 + 1, 255, 256, 65535, 65536, 1<<53 + 1}[rng.Intn(12)]
	case 1:
		return uint64(rng.Intn(1000))
	}
	return rng.Uint64()
}

func randF64(rng *rand.Rand) float64 {
	switch rng.Intn(4) {
	case 0:
		return []float64{0, math.Copysign(0, -1), 1, -1, 0.1, math.NaN(), math.Inf(1), math.Inf(-1), math.MaxFloat64, math.SmallestNonzeroFloat64, math.MaxFloat32 * 2, 1e-50, 1<<53 + 2}[rng.Intn(13)]
	case 1:
		return rng.NormFloat64()
	}
	return math.Float64frombits(rng.Uint64())
}

func randF32(rng *rand.Rand) float32 {
	switch rng.Intn(4) {
	case 0:
		return []float32{0, float32(math.Copysign(0, -1)), 1, -1, 0.1, float32(math.NaN()), float32(math.Inf(1)), float32(math.Inf(-1)), math.MaxFloat32, math.SmallestNonzeroFloat32}[rng.Intn(10)]
	case 1:
		return float32(rng.NormFloat64())
	}
	return math.Float32frombits(rng.Uint32())
}

func invalidUTF8(rng *rand.Rand) string {
	bad := []string{"\xff", "\xc3", "\xe2\x82", "\xed\xa0\x80", "\xf8\x88\x80\x80\x80", "\x80"}[rng.Intn(6)]
	s := anyName(rng) + bad + anyName(rng)
	if utf8.ValidString(s) {
		return "\xff"
	}
	return s
}

func randScalarLeaf(rng *rand.Rand) interface{} {
	switch rng.Intn(14) {
	case 0:
		return anyName(rng)
	case 1:
		return int(randI64(rng))
	case 2:
		return int8(randI64(rng))
	case 3:
		return int16(randI64(rng))
	case 4:
		return int32(randI64(rng))
	case 5:
		return randI64(rng)
	case 6:
		return uint(randU64(rng))
	case 7:
		return uint8(randU64(rng))
	case 8:
		return uint16(randU64(rng))
	case 9:
		return uint32(randU64(rng))
	case 10:
		return randU64(rng)
	case 11:
		return randF32(rng)
	case 12:
		return randF64(rng)
	}
	return rng.Intn(2) == 0
}

func randBytes(rng *rand.Rand) []byte {
	if rng.Intn(8) == 0 {
		return nil
	}
	b := make([]byte, rng.Intn(6))
	rng.Read(b)
	return b
}

func genScalar(kind string, rng *rand.Rand) interface{} {
	switch kind {
	case "string":
		return anyName(rng)
	case "string-invalid-utf8":
		return invalidUTF8(rng)
	case "int":
		return int(randI64(rng))
	case "int8":
		if rng.Intn(4) == 0 {
			return []int8{math.MinInt8, math.MaxInt8, 0, -1}[rng.Intn(4)]
		}
		return int8(randI64(rng))
	case "int16":
		if rng.Intn(4) == 0 {
			return []int16{math.MinInt16, math.MaxInt16, 0, -1}[rng.Intn(4)]
		}
		return int16(randI64(rng))
	case "int32":
		if rng.Intn(4) == 0 {
			return []int32{math.MinInt32, math.MaxInt32, 0, -1}[rng.Intn(4)]
		}
		return int32(randI64(rng))
	case "int64":
		return randI64(rng)
	case "uint":
		return uint(randU64(rng))
	case "uint8":
		if rng.Intn(4) == 0 {
			return []uint8{0, math.MaxUint8, 128}[rng.Intn(3)]
		}
		return uint8(randU64(rng))
	case "uint16":
		if rng.Intn(4) == 0 {
			return []uint16{0, math.MaxUint16, 1 << 15}[rng.Intn(3)]
		}
		return uint16(randU64(rng))
	case "uint32":
		if rng.Intn(4) == 0 {
			return []uint32{0, math.MaxUint32, 1 << 31}[rng.Intn(3)]
		}
		return uint32(randU64(rng))
	case "uint64":
		return randU64(rng)
	case "float32":
		return randF32(rng)
	case "float64":
		return randF64(rng)
	case "bool":
		return rng.Intn(2) == 0
	case "[]string":
		if rng.Intn(10) == 0 {
			return []string(nil)
		}
		return genNames(rng, rng.Intn(5))
	case "[]byte":
		return randBytes(rng)
	case "[]interface{}":
		n := rng.Intn(5)
		out := make([]interface{}, n)
		for i := range out {
			out[i] = randScalarLeaf(rng)
		}
		return out
	case "[]interface{}-nested":
		var rec func(d int) []interface{}
		rec = func(d int) []interface{} {
			n := rng.Intn(4)
			out := make([]interface{}, n)
			for i := range out {
				switch x := rng.Intn(6); {
				case x == 0 && d < 3:
					out[i] = rec(d + 1)
				case x == 1:
					out[i] = genNames(rng, rng.Intn(3))
				case x == 2:
					out[i] = randBytes(rng)
				default:
					out[i] = randScalarLeaf(rng)
				}
			}
			return out
		}
		return []interface{}{rec(1), randScalarLeaf(rng), rec(1)}
	case "[]interface{}-invalid-utf8":
		out := []interface{}{}
		for i, n := 0, rng.Intn(3); i < n; i++ {
			out = append(out, randScalarLeaf(rng))
		}
		out = append(out, invalidUTF8(rng))
		return out
	case "[]string-invalid-utf8":
		return append(genNames(rng, rng.Intn(3)), invalidUTF8(rng))
	case "unsupported":
		one := 1
		return []interface{}{nil, struct{}{}, map[string]int{"a": 1}, complex(1, 2), &one, uintptr(7), []int{1, 2}, [2]string{"a", "b"}, error(nil), fmt.Errorf("e"), &pb.TypedValue{}}[rng.Intn(11)]
	}
	panic("unknown kind " + kind)
}

// widen is the specification of ToScalar(FromScalar(x)): signed integers as
// int64, unsigned as uint64, floats as float64 (float32 via float64), string,
// bool and []byte unchanged, []string and []interface{} as []interface{} of
// the widened elements.
func widen(x interface{}) (interface{}, bool) {
	switch v := x.(type) {
	case string:
		return v, utf8.ValidString(v)
	case int:
		return int64(v), true
	case int8:
		return int64(v), true
	case int16:
		return int64(v), true
	case int32:
		return int64(v), true
	case int64:
		return v, true
	case uint:
		return uint64(v), true
	case uint8:
		return uint64(v), true
	case uint16:
		return uint64(v), true
	case uint32:
		return uint64(v), true
	case uint64:
		return v, true
	case float32:
		return float64(v), true
	case float64:
		return v, true
	case bool:
		return v, true
	case []byte:
		return v, true
	case []string:
		out := make([]interface{}, len(v))
		for i, s := range v {
			out[i] = s
		}
		return out, true
	case []interface{}:
		out := make([]interface{}, len(v))
		for i, e := range v {
			w, ok := widen(e)
			if !ok {
				return nil, false
			}
			out[i] = w
		}
		return out, true
	}
	return nil, false
}

// sameScalar: identical dynamic type and value (floats: identical bits, or
// both NaN; byte slices and lists element-wise).
func sameScalar(got, want interface{}) bool {
	if reflect.TypeOf(got) != reflect.TypeOf(want) {
		return false
	}
	switch w := want.(type) {
	case float64:
		g := got.(float64)
		return math.Float64bits(g) == math.Float64bits(w) || (math.IsNaN(g) && math.IsNaN(w))
	case []byte:
		return bytes.Equal(got.([]byte), w)
	case []interface{}:
		g := got.([]interface{})
		if len(g) != len(w) {
			return false
		}
		for i := range w {
			if !sameScalar(g[i], w[i]) {
				return false
			}
		}
		return true
	}
	return got == want
}

func wantArm(x interface{}) string {
	switch x.(type) {
	case string:
		return "string"
	case int, int8, int16, int32, int64:
		return "int"
	case uint, uint8, uint16, uint32, uint64:
		return "uint"
	case float32, float64:
		return "double"
	case bool:
		return "bool"
	case []byte:
		return "bytes"
	case []string, []interface{}:
		return "leaflist"
	}
	return "?"
}

func callFromScalar(x interface{}) (tv *pb.TypedValue, err error, pan interface{}) {
	defer func() {
		if r := recover(); r != nil {
			pan = r
		}
	}()
	tv, err = value.FromScalar(x)
	return tv, err, nil
}

func callToScalar(tv *pb.TypedValue) (x interface{}, err error, pan interface{}) {
	defer func() {
		if r := recover(); r != nil {
			pan = r
		}
	}()
	x, err = value.ToScalar(tv)
	return x, err, nil
}

func wire(tv *pb.TypedValue) (*pb.TypedValue, error) {
	b, err := proto.Marshal(tv)
	if err != nil {
		return nil, err
	}
	out := &pb.TypedValue{}
	if err := proto.Unmarshal(b, out); err != nil {
		return nil, err
	}
	return out, nil
}

func scalarTrial(r *vlib.Run, trial int, rng *rand.Rand) {
	kind := scalarKinds[trial%len(scalarKinds)]
	x := genScalar(kind, rng)
	r.Eval(1)
	r.Count("scalar_kind_"+kind, 1)
	desc := fmt.Sprintf("%T(%#v)", x, x)
	if kind == "unsupported" {
		desc = fmt.Sprintf("%T", x) // values may print addresses; the type is the case
	}
	wit := map[string]interface{}{"kind": kind, "go_value": desc}
	tv, err, pan := callFromScalar(x)
	if pan != nil {
		r.Violation("scalar", trial, "panic:fromscalar", fmt.Sprintf("FromScalar(%s) panicked: %v", desc, pan), wit)
		return
	}
	switch kind {
	case "unsupported":
		// Outside the quantifier (supported scalars): only totality (no panic) is judged.
		if err != nil {
			r.Count("scalar_unsupported_rejected_with_error", 1)
		} else {
			r.Count("scalar_unsupported_accepted", 1)
		}
		r.Distinct(vlib.Hash("sc", desc))
		return
	case "[]string-invalid-utf8":
		// The statement only requires the round trip to be unchanged; whether a
		// []string element with invalid UTF-8 is rejected is recorded, not judged.
		if err != nil {
			r.Count("scalar_stringslice_invalid_utf8_rejected", 1)
			r.Distinct(vlib.Hash("sc", desc))
			return
		}
		r.Count("scalar_stringslice_invalid_utf8_accepted_observation", 1)
	case "string-invalid-utf8", "[]interface{}-invalid-utf8":
		if err == nil {
			r.Violation("scalar", trial, "scalar:invalid-utf8-accepted", fmt.Sprintf("FromScalar(%s) accepted a string that is not valid UTF-8 (a TypedValue string must be UTF-8): %v", desc, tv), wit)
		} else {
			r.Count("scalar_invalid_utf8_rejected", 1)
			r.Distinct(vlib.Hash("sc", desc))
		}
		return
	}
	want, ok := widen(x)
	if !ok {
		panic("generator produced an unsupported value for kind " + kind)
	}
	if err != nil || tv == nil {
		r.Violation("scalar", trial, "scalar-roundtrip:"+kind, fmt.Sprintf("FromScalar(%s) failed for a supported scalar: tv=%v err=%v", desc, tv, err), wit)
		return
	}
	if got, w := arm(tv), wantArm(x); got != w {
		r.Violation("scalar", trial, "scalar-roundtrip:"+kind, fmt.Sprintf("FromScalar(%s) produced a TypedValue with arm %s, want %s", desc, got, w), wit)
		return
	}
	check := func(tvv *pb.TypedValue, via string) bool {
		got, err, pan := callToScalar(tvv)
		if pan != nil {
			r.Violation("scalar", trial, "panic:toscalar", fmt.Sprintf("ToScalar(FromScalar(%s))%s panicked: %v", desc, via, pan), wit)
			return false
		}
		if err != nil {
			r.Violation("scalar", trial, "scalar-roundtrip:"+kind, fmt.Sprintf("ToScalar(FromScalar(%s))%s failed: %v", desc, via, err), wit)
			return false
		}
		if !sameScalar(got, want) {
			r.Violation("scalar", trial, "scalar-roundtrip:"+kind,
				fmt.Sprintf("ToScalar(FromScalar(%s))%s = %T(%#v), want %T(%#v) (the input widened to int64 / uint64 / float64, otherwise unchanged)", desc, via, got, got, want, want), wit)
			return false
		}
		return true
	}
	if !check(tv, "") {
		return
	}
	if kind != "[]string-invalid-utf8" {
		tv2, werr := wire(tv)
		if werr != nil {
			r.Violation("scalar", trial, "scalar-roundtrip:"+kind, fmt.Sprintf("FromScalar(%s) produced a TypedValue that does not survive marshal/unmarshal: %v", desc, werr), wit)
			return
		}
		r.Count("scalar_roundtrips_also_through_the_wire", 1)
		if !check(tv2, " through marshal/unmarshal") {
			return
		}
	}
	r.Count("scalar_roundtrips_ok", 1)
	r.Distinct(vlib.Hash("sc", desc))
	if r.WantSample() && trial%4999 == 0 {
		r.Sample(map[string]interface{}{"mode": "scalar", "trial": trial, "go_value": desc, "back": fmt.Sprintf("%T(%#v)", want, want)})
	}
}

// ---------------------------------------------------------------------------
// Equal

func arm(v *pb.TypedValue) string {
	switch v.GetValue().(type) {
	case nil:
		return "none"
	case *pb.TypedValue_StringVal:
		return "string"
	case *pb.TypedValue_IntVal:
		return "int"
	case *pb.TypedValue_UintVal:
		return "uint"
	case *pb.TypedValue_BoolVal:
		return "bool"
	case *pb.TypedValue_BytesVal:
		return "bytes"
	case *pb.TypedValue_FloatVal:
		return "float"
	case *pb.TypedValue_DoubleVal:
		return "double"
	case *pb.TypedValue_DecimalVal:
		return "decimal"
	case *pb.TypedValue_LeaflistVal:
		return "leaflist"
	case *pb.TypedValue_AnyVal:
		return "any"
	case *pb.TypedValue_JsonVal:
		return "json"
	case *pb.TypedValue_JsonIetfVal:
		return "json_ietf"
	case *pb.TypedValue_AsciiVal:
		return "ascii"
	case *pb.TypedValue_ProtoBytes:
		return "proto_bytes"
	}
	return "unknown"
}

func decRat(d *pb.Decimal64) *big.Rat {
	if d.GetPrecision() > 400 {
		return nil
	}
	den := new(big.Int).Exp(big.NewInt(10), big.NewInt(int64(d.GetPrecision())), nil)
	return new(big.Rat).SetFrac(big.NewInt(d.GetDigits()), den)
}

// sameContent is the specification "same arm and same content (numerically
// for numbers)". It is deliberately generous: it is only used in the
// direction Equal(a,b) => sameContent(a,b).
func sameContent(a, b *pb.TypedValue) bool {
	if arm(a) != arm(b) {
		return false
	}
	switch arm(a) {
	case "none":
		return true // neither carries a value
	case "string":
		return a.GetStringVal() == b.GetStringVal()
	case "int":
		return a.GetIntVal() == b.GetIntVal()
	case "uint":
		return a.GetUintVal() == b.GetUintVal()
	case "bool":
		return a.GetBoolVal() == b.GetBoolVal()
	case "bytes":
		return bytes.Equal(a.GetBytesVal(), b.GetBytesVal())
	case "float":
		x, y := a.GetFloatVal(), b.GetFloatVal()
		return x == y || math.Float32bits(x) == math.Float32bits(y)
	case "double":
		x, y := a.GetDoubleVal(), b.GetDoubleVal()
		return x == y || math.Float64bits(x) == math.Float64bits(y)
	case "decimal":
		da, db := a.GetDecimalVal(), b.GetDecimalVal()
		if da.GetDigits() == db.GetDigits() && da.GetPrecision() == db.GetPrecision() {
			return true
		}
		ra, rb := decRat(da), decRat(db)
		return ra != nil && rb != nil && ra.Cmp(rb) == 0
	case "leaflist":
		ea, eb := a.GetLeaflistVal().GetElement(), b.GetLeaflistVal().GetElement()
		if len(ea) != len(eb) {
			return false
		}
		for i := range ea {
			if !sameContent(ea[i], eb[i]) {
				return false
			}
		}
		return true
	}
	return proto.Equal(a, b)
}

func tvStr(v *pb.TypedValue) string {
	if v == nil {
		return "<nil>"
	}
	s := prototext.MarshalOptions{Multiline: false}.Format(v)
	s = strings.Join(strings.Fields(s), " ")
	if s == "" {
		return "<no arm>"
	}
	return s
}

func tS(s string) *pb.TypedValue {
	return &pb.TypedValue{Value: &pb.TypedValue_StringVal{StringVal: s}}
}
func tI(i int64) *pb.TypedValue  { return &pb.TypedValue{Value: &pb.TypedValue_IntVal{IntVal: i}} }
func tU(u uint64) *pb.TypedValue { return &pb.TypedValue{Value: &pb.TypedValue_UintVal{UintVal: u}} }
func tB(b bool) *pb.TypedValue   { return &pb.TypedValue{Value: &pb.TypedValue_BoolVal{BoolVal: b}} }
func tBy(b []byte) *pb.TypedValue {
	return &pb.TypedValue{Value: &pb.TypedValue_BytesVal{BytesVal: b}}
}
func tF(f float32) *pb.TypedValue {
	return &pb.TypedValue{Value: &pb.TypedValue_FloatVal{FloatVal: f}}
}
func tD(f float64) *pb.TypedValue {
	return &pb.TypedValue{Value: &pb.TypedValue_DoubleVal{DoubleVal: f}}
}
func tDec(d int64, p uint32) *pb.TypedValue {
	return &pb.TypedValue{Value: &pb.TypedValue_DecimalVal{DecimalVal: &pb.Decimal64{Digits: d, Precision: p}}}
}
func tLL(vs ...*pb.TypedValue) *pb.TypedValue {
	return &pb.TypedValue{Value: &pb.TypedValue_LeaflistVal{LeaflistVal: &pb.ScalarArray{Element: vs}}}
}
func tAny(m proto.Message) *pb.TypedValue {
	a, err := anypb.New(m)
	if err != nil {
		panic(err)
	}
	return &pb.TypedValue{Value: &pb.TypedValue_AnyVal{AnyVal: a}}
}
func tJSON(s string) *pb.TypedValue {
	return &pb.TypedValue{Value: &pb.TypedValue_JsonVal{JsonVal: []byte(s)}}
}
func tJSONIetf(s string) *pb.TypedValue {
	return &pb.TypedValue{Value: &pb.TypedValue_JsonIetfVal{JsonIetfVal: []byte(s)}}
}
func tASCII(s string) *pb.TypedValue {
	return &pb.TypedValue{Value: &pb.TypedValue_AsciiVal{AsciiVal: s}}
}
func tPB(b []byte) *pb.TypedValue {
	return &pb.TypedValue{Value: &pb.TypedValue_ProtoBytes{ProtoBytes: b}}
}

func negZero() float64 { return math.Copysign(0, -1) }

// fixedPool: every oneof arm, several values each; the same numbers (0, 1, 42)
// in every numeric arm and as strings / bytes; 0, -0, NaN; empty, same-length
// and nested leaf-lists; a TypedValue without an arm; nil.
func fixedPool() []*pb.TypedValue {
	return []*pb.TypedValue{
		nil,
		{},
		tS(""), tS("a"), tS("b"), tS("0"), tS("1"), tS("42"), tS("true"), tS("a/b"), tS("é"), tS("\x00"),
		tI(0), tI(1), tI(-1), tI(42), tI(2), tI(math.MaxInt64), tI(math.MinInt64),
		tU(0), tU(1), tU(42), tU(2), tU(math.MaxUint64), tU(1 << 63),
		tB(true), tB(false),
		tBy(nil), tBy([]byte{0}), tBy([]byte{1}), tBy([]byte("a")), tBy([]byte("42")), tBy([]byte{0, 0}),
		tF(0), tF(float32(negZero())), tF(1), tF(42), tF(1.5), tF(float32(math.NaN())), tF(float32(math.Inf(1))), tF(float32(math.Inf(-1))), tF(0.1),
		tD(0), tD(negZero()), tD(1), tD(42), tD(1.5), tD(math.NaN()), tD(math.Inf(1)), tD(math.Inf(-1)), tD(1e300), tD(0.1), tD(float64(float32(0.1))),
		tDec(0, 0), tDec(1, 0), tDec(10, 1), tDec(42, 0), tDec(420, 1), tDec(15, 1), tDec(-1, 0), tDec(1, 1), tDec(0, 5),
		tLL(), tLL(tS("a")), tLL(tS("b")), tLL(tS("a"), tS("b")), tLL(tS("a"), tS("c")), tLL(tS("b"), tS("a")),
		tLL(tI(1)), tLL(tU(1)), tLL(tD(1)), tLL(tI(1), tI(2)), tLL(tI(1), tI(3)), tLL(tI(2), tI(1)),
		tLL(tD(0)), tLL(tD(negZero())), tLL(tD(math.NaN())), tLL(tS("a"), tI(1)), tLL(tI(1), tS("a")),
		tLL(tLL()), tLL(tLL(), tLL()), tLL(tLL(tS("a"))), tLL(tLL(tS("b"))), tLL(tLL(tS("a")), tLL(tS("b"))), tLL(tLL(tS("a")), tLL(tS("c"))),
		tLL(tLL(tLL(tI(1)))), tLL(tLL(tLL(tI(2)))), tLL(&pb.TypedValue{}), tLL(tBy([]byte("a"))), tLL(tDec(1, 0)), tLL(tB(true)), tLL(tB(false)),
		tLL(tS("a"), tS("b"), tS("c")), tLL(tS("a"), tS("b"), tS("d")),
		tAny(&pb.Path{Origin: "x"}), tAny(&pb.Path{Origin: "y"}), {Value: &pb.TypedValue_AnyVal{AnyVal: &anypb.Any{}}},
		tJSON(""), tJSON("{}"), tJSON("1"), tJSON(`"a"`), tJSON(`{"a":1}`),
		tJSONIetf(""), tJSONIetf("{}"), tJSONIetf("1"), tJSONIetf(`"a"`), tJSONIetf(`{"a":1}`),
		tASCII(""), tASCII("a"), tASCII("1"), tASCII("42"),
		tPB(nil), tPB([]byte{1}), tPB([]byte("a")), tPB([]byte("42")),
	}
}

var poolStrs = []string{"", "a", "b", "1", "42", "a/b"}
var poolNums = []int64{0, 1, 2, 42, -1, 7}

func randValue(rng *rand.Rand, depth int) *pb.TypedValue {
	n := 14
	k := rng.Intn(n + 4) // leaf-lists over-represented
	if k >= n {
		k = 8
	}
	if depth >= 3 && k == 8 {
		k = rng.Intn(8)
	}
	num := poolNums[rng.Intn(len(poolNums))]
	switch k {
	case 0:
		return tS(poolStrs[rng.Intn(len(poolStrs))])
	case 1:
		return tI(num)
	case 2:
		if num < 0 {
			return tU(math.MaxUint64)
		}
		return tU(uint64(num))
	case 3:
		return tB(num%2 == 0)
	case 4:
		return tBy([]byte(poolStrs[rng.Intn(len(poolStrs))]))
	case 5:
		return tF([]float32{float32(num), 0.5, float32(negZero()), float32(math.NaN())}[rng.Intn(4)])
	case 6:
		return tD([]float64{float64(num), 0.5, negZero(), math.NaN(), float64(rng.Intn(1000)) / 8}[rng.Intn(5)])
	case 7:
		return tDec(num*[]int64{1, 10, 100}[rng.Intn(3)], uint32(rng.Intn(3)))
	case 8:
		m := rng.Intn(4)
		vs := make([]*pb.TypedValue, m)
		for i := range vs {
			vs[i] = randValue(rng, depth+1)
		}
		return tLL(vs...)
	case 9:
		return tAny(&pb.Path{Origin: poolStrs[rng.Intn(len(poolStrs))]})
	case 10:
		return tJSON([]string{"1", "2", `"a"`, "{}", "[1]"}[rng.Intn(5)])
	case 11:
		return tJSONIetf([]string{"1", "2", `"a"`, "{}", "[1]"}[rng.Intn(5)])
	case 12:
		return tASCII(poolStrs[rng.Intn(len(poolStrs))])
	}
	return tPB([]byte(poolStrs[rng.Intn(len(poolStrs))]))
}

// buildPool returns two independent copies (each passed through marshal ->
// unmarshal) of the same value list, so that pair (i,i) compares a value with
// an equal value held in different memory.
// poolFamily[i] != 0: pool member i belongs to that near-neighbour family.
var poolFamily []int

func buildPool(r *vlib.Run) (a, b []*pb.TypedValue) {
	base := fixedPool()
	family := make([]int, len(base))
	nfam := 0
	addFamily := func(fam []*pb.TypedValue) {
		nfam++
		for _, v := range fam {
			base = append(base, v)
			family = append(family, nfam)
		}
	}
	for _, fam := range fixedFamilies() {
		addFamily(fam)
	}
	size := r.N(360, 800)
	rng := r.Rand("equal-pool", 0)
	for len(base) < size {
		if rng.Intn(2) == 0 {
			addFamily(randFamily(rng))
		} else {
			base = append(base, randValue(rng, 0))
			family = append(family, 0)
		}
	}
	poolFamily = family
	for _, v := range base {
		if v == nil {
			a, b = append(a, nil), append(b, nil)
			continue
		}
		x, err := wire(v)
		if err != nil {
			panic(fmt.Sprintf("pool member %v does not marshal: %v", v, err))
		}
		y, _ := wire(v)
		a, b = append(a, x), append(b, y)
	}
	return a, b
}

func callEqual(a, b *pb.TypedValue) (res bool, pan interface{}) {
	defer func() {
		if r := recover(); r != nil {
			pan = r
		}
	}()
	return value.Equal(a, b), nil
}

func equalPairs(r *vlib.Run) {
	A, B := buildPool(r)
	n := len(A)
	if r.Shard == 0 || r.OnlyTrial >= 0 {
		r.Count("equal_pool_size", int64(n))
		arms := map[string]bool{}
		for _, v := range A {
			arms[arm(v)] = true
		}
		r.Count("equal_pool_arms_incl_none", int64(len(arms)))
	}
	for i := 0; i < n; i++ {
		for j := 0; j < n; j++ {
			idx := i*n + j
			if !r.Mine(idx) {
				continue
			}
			a, b := A[i], B[j]
			r.Eval(1)
			r.Count("equal_ordered_pairs", 1)
			wit := map[string]interface{}{"a": tvStr(a), "b": tvStr(b), "pool_index_a": i, "pool_index_b": j}
			ab, pan1 := callEqual(a, b)
			ba, pan2 := callEqual(b, a)
			if pan1 != nil || pan2 != nil {
				x, y, pan := a, b, pan1
				if pan1 == nil {
					x, y, pan = b, a, pan2
				}
				r.Violation("equal", idx, "panic:equal", fmt.Sprintf("Equal(%s, %s) panicked: %v", tvStr(x), tvStr(y), pan), wit)
				continue
			}
			if a != nil || b != nil {
				r.Distinct(vlib.Hash("eq", idx))
			}
			if ab != ba {
				r.Violation("equal", idx, "equal:asymmetric", fmt.Sprintf("Equal(a,b)=%v but Equal(b,a)=%v for a=%s b=%s", ab, ba, tvStr(a), tvStr(b)), wit)
				continue
			}
			same := sameContent(a, b)
			neighbours := i != j && poolFamily[i] != 0 && poolFamily[i] == poolFamily[j]
			if neighbours {
				r.Count("equal_near_neighbour_pairs", 1)
				if !same {
					r.Count("equal_near_neighbour_pairs_with_different_content_"+arm(a), 1)
				}
			}
			switch {
			case !ab && a != nil && b != nil && handledByEqual(a) && proto.Equal(a, b):
				r.Violation("equal", idx, "equal:identical-reported-different:"+arm(a), fmt.Sprintf("Equal reports two identical messages %s and %s as different", tvStr(a), tvStr(b)), wit)
			case ab && !same && arm(a) != arm(b):
				r.Violation("equal", idx, "equal:different-arms", fmt.Sprintf("Equal reports %s (%s) and %s (%s) as equal although they use different arms", tvStr(a), arm(a), tvStr(b), arm(b)), wit)
			case ab && !same:
				r.Violation("equal", idx, "equal:different-content:"+arm(a), fmt.Sprintf("Equal reports %s and %s as equal although their content differs", tvStr(a), tvStr(b)), wit)
			case ab:
				r.Count("equal_true_and_same_"+arm(a), 1)
			case same:
				// Not demanded by the statement (soundness only); recorded.
				r.Count("equal_false_although_same_"+arm(a)+"_not_judged", 1)
			default:
				r.Count("equal_false_and_different", 1)
			}
		}
	}
	if r.Shard == 0 && r.OnlyTrial < 0 {
		r.Sample(map[string]interface{}{"mode": "equal", "pool_size": n, "pool_first_members": func() []string {
			var s []string
			for _, v := range A[:12] {
				s = append(s, tvStr(v))
			}
			return s
		}()})
	}
}

// ---------------------------------------------------------------------------

func body(r *vlib.Run) {
	if r.OnlyTrial < 0 || r.OnlyMode == "equal" {
		equalPairs(r)
	}
	if r.OnlyTrial < 0 || r.OnlyMode == "equal-shapes" {
		shapesMode(r)
	}
	if r.OnlyTrial < 0 || r.OnlyMode == "client-enumerated" {
		directedClient(r)
	}
	r.ForTrials("tostrings", r.N(100000, 1000000), func(trial int, rng *rand.Rand) { toStringsTrial(r, trial, rng) })
	r.ForTrials("completepath", r.N(60000, 600000), func(trial int, rng *rand.Rand) { completePathTrial(r, trial, rng) })
	r.ForTrials("client", r.N(100000, 1000000), func(trial int, rng *rand.Rand) { clientTrial(r, trial, rng) })
	r.ForTrials("scalar", r.N(110000, 1100000), func(trial int, rng *rand.Rand) { scalarTrial(r, trial, rng) })
	r.ForTrials("concurrent", r.N(64, 256), func(trial int, rng *rand.Rand) { concurrentTrial(r, trial, rng) })
}

func main() {
	vlib.Main(&vlib.Spec{
		ID: "C19",
		Rule: "tostrings: seeded paths (nil / elem / deprecated element / both with different contents / neither; 0-5 elements; 0-4 keys per elem; names, key names and values arbitrary valid UTF-8 incl. '/', '[', ']', '=', '\\', blanks, control characters and the empty string; target and origin present or not), " +
			"each judged with prefix flag off and on against model.IndexPath / IndexPrefix: 32 evaluations of the original plus evaluations of proto.Clone and of two copies rebuilt with ascending / descending key insertion (32 each when an elem has >= 2 keys), all results identical and equal to the specification. " +
			"completepath: seeded prefix x path pairs over origins {none, openconfig, o, a/b}, 45% without elements, 8 evaluations on the pair, a rebuilt copy and a clone: both origins -> error, path origin with prefix elems -> error, else origin + prefix index + path index. " +
			"client: seeded queries (1-3 paths of 0-5 plain elements: non-empty, valid UTF-8, none of [ ] \\ =, no whitespace, '/' anywhere) plus the enumeration of all 1-2 element paths over {a, b/, /a, a/b, /, a//b, *}: real ToSubscribeRequest, marshal/unmarshal, then path.ToStrings, path.CompletePath and the specification index of every subscription path must equal the query elements. " +
			"scalar: seeded values of 22 kinds (17 supported Go kinds incl. nested []interface{}, invalid UTF-8, unsupported types), ToScalar(FromScalar(x)) directly and through the wire against the widening specification (dynamic type and value). " +
			"equal: all ordered pairs of a pool (fixed list with every oneof arm, a value without arm and nil; fixed and seeded near-neighbour families — Decimal64 with 8-18 significant digits differing by 1-3 in the last digit, equal decimals encoded differently, float/double differing in the last bit or only beyond float32 precision, ints/uints differing by 1 near 2^24, 2^53, 2^63, each also inside leaf-lists; filled to 360 / 800 with seeded values; every member through marshal/unmarshal, two independent copies): no panic, Equal(a,b)=Equal(b,a), Equal(a,b) => same arm and same content (exact), identical messages of the arms Equal handles => Equal. " +
			"equal-shapes: all ordered pairs of 30 shapes and their 29 wire images, two independently built copies — Go-only TypedValue shapes taken RAW (decimal_val / leaflist_val / any_val wrapper holding a nil sub-message, nil byte payloads, leaf-lists with nil elements or with such wrappers as elements, the nil *TypedValue, a value without arm) plus ordinary neighbours: Equal must not panic, be symmetric, sound, and identify a shape with its own marshal->unmarshal image where that image is of an arm Equal documents (decimal, leaf-lists of handled values); ToScalar must not panic on any of them and must convert a shape like its wire image. " +
			"concurrent: 64 / 256 trials of 4-16 goroutines under GOMAXPROCS 1-16, each indexing its own generated multi-key paths and 8 shared path objects through ToStrings / CompletePath and comparing every result with the specification it computed itself, plus Equal / FromScalar / ToScalar on shared read-only values with the same oracles. " +
			"Distinct non-trivial: a path with a non-empty index; a prefix/path pair; a query with at least one element; a scalar whose conversion was judged; an ordered pair with at least one non-nil side — hashed by canonical input.",
		Assumptions: []string{
			"model.IndexPath / model.IndexPrefix (key values ordered by key name in byte order) are the specification of the index form",
			"'plain' query element as fixed in DESIGN.md: non-empty, valid UTF-8, none of [ ] \\ =, no whitespace",
			"the server indexes a subscription with path.ToStrings(path,false) and path.CompletePath(prefix,path) (subscribe.addSubscription / processSubscription); no gRPC transport, the wire is proto marshal/unmarshal",
			"the generated Equal pool is wire-normalised (marshal/unmarshal); Go-only shapes (oneof wrapper around a nil sub-message, nil leaf-list elements, nil byte payloads, nil *TypedValue) are judged raw in the equal-shapes mode; not covered: a oneof interface holding a typed-nil WRAPPER pointer, which protobuf-go treats as unset and on which the generated getters themselves panic",
			"Equal is judged for totality, symmetry, soundness (exact content; two encodings of the same decimal number may compare either way) and for reporting identical messages of the arms it documents as handled (primitives and scalar arrays of them, NaN excluded) as equal; pairs with the same content in other arms (JSON, any, ascii, proto_bytes, no value, NaN) that it reports as different are counted, not judged",
			"rejection of invalid UTF-8 inside a []string is recorded, not judged (the statement only asks for an unchanged round trip)",
			"map-order independence is explored by repetition (Go randomises each range statement), not enumerated; the concurrent mode explores schedules by perturbation (goroutine count, GOMAXPROCS, GC pressure) — its verdict depends only on returned values, a replay re-runs the workload, not the schedule",
		},
		QuickShards: 8, ThoroughShards: 16,
		MinDistinctQuick: 200000, MinDistinctThorough: 2000000,
		Body: body,
	})
}
