package main

// Near-neighbour families for the Equal mode: values of the same kind that
// differ only beyond float32 / float64 precision or in the last digit / bit,
// alone and inside leaf-lists. An Equal that compares through a lossy
// conversion (float32, float64) identifies members of a family; the
// soundness oracle (Equal => same arm and same content, exact) then fires.

import (
	"math"
	"math/rand"

	pb "github.com/openconfig/gnmi/proto/gnmi"
)

func next32(f float32) float32 { return math.Nextafter32(f, float32(math.Inf(1))) }
func next64(f float64) float64 { return math.Nextafter(f, math.Inf(1)) }

// withLists adds, for a family of scalars, the same values inside leaf-lists
// (single element, after a common first element, nested).
func withLists(fam []*pb.TypedValue) [][]*pb.TypedValue {
	var single, second, nested []*pb.TypedValue
	for _, v := range fam {
		single = append(single, tLL(v))
		second = append(second, tLL(tS("k"), v))
		nested = append(nested, tLL(tLL(v)))
	}
	return [][]*pb.TypedValue{fam, single, second, nested}
}

// fixedFamilies: each inner slice is one family of pairwise different values.
func fixedFamilies() [][]*pb.TypedValue {
	var out [][]*pb.TypedValue
	// Decimal64, 8-18 significant digits, same precision, last digit differs by 1-3.
	out = append(out, withLists([]*pb.TypedValue{tDec(123456789, 3), tDec(123456790, 3), tDec(123456791, 3), tDec(123456792, 3)})...)
	out = append(out, []*pb.TypedValue{tDec(12345678, 2), tDec(12345679, 2)})
	out = append(out, []*pb.TypedValue{tDec(999999999999999999, 6), tDec(999999999999999998, 6), tDec(999999999999999996, 6)})
	out = append(out, []*pb.TypedValue{tDec(100000000, 0), tDec(100000001, 0), tDec(100000003, 0)})
	out = append(out, []*pb.TypedValue{tDec(-1234567890123, 4), tDec(-1234567890124, 4), tDec(-1234567890122, 4)})
	out = append(out, []*pb.TypedValue{tDec(9007199254740993, 0), tDec(9007199254740992, 0)}) // beyond float64 too
	// Numerically equal, differently encoded (either answer is accepted, see sameContent).
	out = append(out, withLists([]*pb.TypedValue{tDec(150, 2), tDec(15, 1)})[:2]...)
	out = append(out, []*pb.TypedValue{tDec(1234567890, 1), tDec(123456789, 0)})
	// float / double differing in the last bit.
	out = append(out, withLists([]*pb.TypedValue{tF(1), tF(next32(1))})[:2]...)
	out = append(out, []*pb.TypedValue{tF(16777216), tF(next32(16777216))})
	out = append(out, []*pb.TypedValue{tF(0.1), tF(next32(0.1))})
	out = append(out, withLists([]*pb.TypedValue{tD(1), tD(next64(1))})[:2]...)
	out = append(out, []*pb.TypedValue{tD(9007199254740992), tD(next64(9007199254740992)), tD(9007199254740991)})
	out = append(out, []*pb.TypedValue{tD(0.1), tD(next64(0.1))})
	out = append(out, []*pb.TypedValue{tD(1e300), tD(next64(1e300))})
	out = append(out, []*pb.TypedValue{tD(123456.789), tD(123456.790)}) // equal as float32
	out = append(out, []*pb.TypedValue{tD(16777216), tD(16777217)})     // equal as float32
	// ints / uints differing by 1 near 2^24, 2^53, 2^63.
	out = append(out, withLists([]*pb.TypedValue{tI(1 << 24), tI(1<<24 + 1)})[:2]...)
	out = append(out, withLists([]*pb.TypedValue{tI(1 << 53), tI(1<<53 + 1), tI(1<<53 - 1)})[:3]...)
	out = append(out, []*pb.TypedValue{tI(-(1 << 53)), tI(-(1 << 53) - 1)})
	out = append(out, []*pb.TypedValue{tI(math.MaxInt64), tI(math.MaxInt64 - 1)})
	out = append(out, []*pb.TypedValue{tI(math.MinInt64), tI(math.MinInt64 + 1)})
	out = append(out, []*pb.TypedValue{tU(1 << 24), tU(1<<24 + 1)})
	out = append(out, withLists([]*pb.TypedValue{tU(1 << 53), tU(1<<53 + 1)})[:2]...)
	out = append(out, withLists([]*pb.TypedValue{tU(1 << 63), tU(1<<63 + 1), tU(1<<63 - 1)})[:2]...)
	out = append(out, []*pb.TypedValue{tU(math.MaxUint64), tU(math.MaxUint64 - 1)})
	// The same number near 2^63 as int and uint (different arms).
	out = append(out, []*pb.TypedValue{tI(math.MaxInt64), tU(math.MaxInt64)})
	return out
}

var pow10 = []int64{1, 10, 100, 1000, 10000, 100000, 1000000, 10000000, 100000000, 1000000000, 10000000000, 100000000000,
	1000000000000, 10000000000000, 100000000000000, 1000000000000000, 10000000000000000, 100000000000000000, 1000000000000000000}

// randFamily draws one family of 2-3 near neighbours, sometimes inside leaf-lists.
func randFamily(rng *rand.Rand) []*pb.TypedValue {
	var fam []*pb.TypedValue
	switch rng.Intn(6) {
	case 0, 1: // Decimal64 with 8-18 significant digits
		nd := 8 + rng.Intn(11)
		d := pow10[nd-1] + rng.Int63n(8*pow10[nd-1])
		if rng.Intn(3) == 0 {
			d = -d
		}
		p := uint32(rng.Intn(10))
		fam = []*pb.TypedValue{tDec(d, p), tDec(d+int64(1+rng.Intn(3)), p)}
		if rng.Intn(2) == 0 {
			fam = append(fam, tDec(d-int64(1+rng.Intn(3)), p))
		}
	case 2:
		f := math.Float32frombits(rng.Uint32())
		if f != f || math.IsInf(float64(f), 0) {
			f = 3.25
		}
		fam = []*pb.TypedValue{tF(f), tF(next32(f))}
	case 3:
		f := math.Float64frombits(rng.Uint64())
		if f != f || math.IsInf(f, 0) {
			f = 3.25
		}
		fam = []*pb.TypedValue{tD(f), tD(next64(f))}
	case 4:
		base := []int64{1 << 24, 1 << 53, math.MaxInt64 - 4, -(1 << 24), -(1 << 53), math.MinInt64 + 4}[rng.Intn(6)] + int64(rng.Intn(7)-3)
		fam = []*pb.TypedValue{tI(base), tI(base + 1)}
	default:
		base := []uint64{1 << 24, 1 << 53, 1 << 63, math.MaxUint64 - 4}[rng.Intn(4)] + uint64(rng.Intn(7)) - 3
		fam = []*pb.TypedValue{tU(base), tU(base + 1)}
	}
	switch rng.Intn(4) {
	case 0:
		for i, v := range fam {
			fam[i] = tLL(v)
		}
	case 1:
		for i, v := range fam {
			fam[i] = tLL(tS("k"), v, tI(7))
		}
	}
	return fam
}

// handledByEqual: value.Equal documents that it handles the primitive arms
// and scalar arrays of them; for those (NaN excluded: it is not equal to
// itself numerically) identical messages must be reported equal.
func handledByEqual(v *pb.TypedValue) bool {
	switch arm(v) {
	case "string", "int", "uint", "bool", "bytes", "decimal":
		return true
	case "float":
		f := v.GetFloatVal()
		return f == f
	case "double":
		f := v.GetDoubleVal()
		return f == f
	case "leaflist":
		for _, e := range v.GetLeaflistVal().GetElement() {
			if !handledByEqual(e) {
				return false
			}
		}
		return true
	}
	return false
}
