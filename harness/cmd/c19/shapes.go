package main

// Go-only TypedValue shapes (D31): legal Go values that do not survive a wire
// round trip unchanged — a oneof wrapper holding a nil sub-message, nil
// leaf-list elements, nil byte payloads, the nil *TypedValue itself. Each is
// judged raw AND in its wire-normalised form (marshal -> unmarshal image).
// value.Equal must be total and symmetric over all of them, sound, and must
// identify a shape with its own wire image where the image is of an arm Equal
// documents as handled (both denote the same message); value.ToScalar must
// not panic on any of them and must treat a shape like its image.
//
// Not included: a oneof interface holding a typed-nil WRAPPER pointer
// ((*pb.TypedValue_DecimalVal)(nil)); protobuf-go treats it as unset and the
// generated getters themselves dereference it, so no consumer supports it.

import (
	"bytes"
	"fmt"

	"google.golang.org/protobuf/types/known/anypb"

	pb "github.com/openconfig/gnmi/proto/gnmi"

	"verif/internal/vlib"
)

type shape struct {
	name string
	mk   func() *pb.TypedValue
}

func decNilWrapper() *pb.TypedValue { return &pb.TypedValue{Value: &pb.TypedValue_DecimalVal{}} }
func llNilWrapper() *pb.TypedValue  { return &pb.TypedValue{Value: &pb.TypedValue_LeaflistVal{}} }
func anyNilWrapper() *pb.TypedValue { return &pb.TypedValue{Value: &pb.TypedValue_AnyVal{}} }

func goOnlyShapes() []shape {
	return []shape{
		{"nil *TypedValue", func() *pb.TypedValue { return nil }},
		{"TypedValue without arm", func() *pb.TypedValue { return &pb.TypedValue{} }},
		{"decimal_val wrapper holding nil", decNilWrapper},
		{"leaflist_val wrapper holding nil", llNilWrapper},
		{"any_val wrapper holding nil", anyNilWrapper},
		{"bytes_val nil slice", func() *pb.TypedValue { return &pb.TypedValue{Value: &pb.TypedValue_BytesVal{}} }},
		{"json_val nil slice", func() *pb.TypedValue { return &pb.TypedValue{Value: &pb.TypedValue_JsonVal{}} }},
		{"json_ietf_val nil slice", func() *pb.TypedValue { return &pb.TypedValue{Value: &pb.TypedValue_JsonIetfVal{}} }},
		{"proto_bytes nil slice", func() *pb.TypedValue { return &pb.TypedValue{Value: &pb.TypedValue_ProtoBytes{}} }},
		{"leaf-list [nil]", func() *pb.TypedValue { return tLL(nil) }},
		{"leaf-list [nil nil]", func() *pb.TypedValue { return tLL(nil, nil) }},
		{"leaf-list [string a; nil]", func() *pb.TypedValue { return tLL(tS("a"), nil) }},
		{"leaf-list [decimal wrapper nil]", func() *pb.TypedValue { return tLL(decNilWrapper()) }},
		{"leaf-list [decimal 0/0; decimal wrapper nil]", func() *pb.TypedValue { return tLL(tDec(0, 0), decNilWrapper()) }},
		{"leaf-list [leaf-list wrapper nil]", func() *pb.TypedValue { return tLL(llNilWrapper()) }},
		{"leaf-list [any wrapper nil]", func() *pb.TypedValue { return tLL(anyNilWrapper()) }},
		{"leaf-list [leaf-list [nil]]", func() *pb.TypedValue { return tLL(tLL(nil)) }},
		{"leaf-list [no-arm value]", func() *pb.TypedValue { return tLL(&pb.TypedValue{}) }},
		// ordinary neighbours the shapes must be told from / identified with
		{"decimal 0/0", func() *pb.TypedValue { return tDec(0, 0) }},
		{"decimal 1/0", func() *pb.TypedValue { return tDec(1, 0) }},
		{"decimal 0/3", func() *pb.TypedValue { return tDec(0, 3) }},
		{"leaf-list []", func() *pb.TypedValue { return tLL() }},
		{"leaf-list [string a]", func() *pb.TypedValue { return tLL(tS("a")) }},
		{"leaf-list [decimal 0/0]", func() *pb.TypedValue { return tLL(tDec(0, 0)) }},
		{"leaf-list [leaf-list []]", func() *pb.TypedValue { return tLL(tLL()) }},
		{"any empty", func() *pb.TypedValue { return &pb.TypedValue{Value: &pb.TypedValue_AnyVal{AnyVal: &anypb.Any{}}} }},
		{"bytes empty", func() *pb.TypedValue { return tBy([]byte{}) }},
		{"string empty", func() *pb.TypedValue { return tS("") }},
		{"int 0", func() *pb.TypedValue { return tI(0) }},
		{"double 0", func() *pb.TypedValue { return tD(0) }},
	}
}

// containsNilValue: v is nil or a leaf-list that (recursively) holds a nil element.
func containsNilValue(v *pb.TypedValue) bool {
	if v == nil {
		return true
	}
	for _, e := range v.GetLeaflistVal().GetElement() {
		if containsNilValue(e) {
			return true
		}
	}
	return false
}

type shapeVal struct {
	name  string
	v     *pb.TypedValue
	image bool // wire-normalised form of shapes[of]
	of    int
}

func buildShapeVals() (a, b []shapeVal) {
	build := func() []shapeVal {
		var out []shapeVal
		shapes := goOnlyShapes()
		for i, s := range shapes {
			out = append(out, shapeVal{name: s.name, v: s.mk(), of: i})
		}
		for i, s := range shapes {
			raw := s.mk()
			if raw == nil {
				continue // nil has no wire form
			}
			img, err := wire(raw)
			if err != nil {
				panic(fmt.Sprintf("shape %q does not marshal: %v", s.name, err))
			}
			out = append(out, shapeVal{name: "wire image of " + s.name, v: img, image: true, of: i})
		}
		return out
	}
	return build(), build()
}

func shapesMode(r *vlib.Run) {
	A, B := buildShapeVals()
	n := len(A)
	if r.Shard == 0 || r.OnlyTrial >= 0 {
		r.Count("shapes_values_raw_and_wire_images", int64(n))
	}
	// Equal over all ordered pairs (two independently built copies).
	for i := 0; i < n; i++ {
		for j := 0; j < n; j++ {
			idx := i*n + j
			if !r.Mine(idx) {
				continue
			}
			a, b := A[i].v, B[j].v
			r.Eval(1)
			r.Count("shapes_equal_ordered_pairs", 1)
			r.Distinct(vlib.Hash("shape-eq", idx))
			wit := map[string]interface{}{"a": A[i].name, "b": B[j].name, "a_text": tvStr(a), "b_text": tvStr(b)}
			ab, pan1 := callEqual(a, b)
			ba, pan2 := callEqual(b, a)
			if pan1 != nil || pan2 != nil {
				x, y, pan := A[i].name, B[j].name, pan1
				if pan1 == nil {
					x, y, pan = B[j].name, A[i].name, pan2
				}
				r.Violation("equal-shapes", idx, "panic:equal", fmt.Sprintf("Equal(%s, %s) panicked: %v", x, y, pan), wit)
				continue
			}
			if ab != ba {
				r.Violation("equal-shapes", idx, "equal:asymmetric", fmt.Sprintf("Equal(a,b)=%v but Equal(b,a)=%v for a = %s, b = %s", ab, ba, A[i].name, B[j].name), wit)
				continue
			}
			same := sameContent(a, b)
			sameMessage := A[i].of == B[j].of // same shape, raw or image: one message
			switch {
			case ab && !same && arm(a) != arm(b):
				r.Violation("equal-shapes", idx, "equal:different-arms", fmt.Sprintf("Equal reports %s and %s as equal although they use different arms (%s, %s)", A[i].name, B[j].name, arm(a), arm(b)), wit)
			case ab && !same:
				r.Violation("equal-shapes", idx, "equal:different-content:"+arm(a), fmt.Sprintf("Equal reports %s (%s) and %s (%s) as equal although their content differs", A[i].name, tvStr(a), B[j].name, tvStr(b)), wit)
			case !ab && sameMessage && a != nil && b != nil && handledByEqual(wireOrSelf(a)) && !containsNilValue(a) && !containsNilValue(b):
				sig := "equal:identical-reported-different:" + arm(a)
				if A[i].image != B[j].image {
					sig = "equal:shape-differs-from-wire-image:" + arm(a)
				}
				r.Violation("equal-shapes", idx, sig, fmt.Sprintf("Equal reports %s and %s as different although both denote the same message (%s)", A[i].name, B[j].name, tvStr(wireOrSelf(a))), wit)
			case ab:
				r.Count("shapes_equal_true_and_same", 1)
				if sameMessage && A[i].image != B[j].image {
					r.Count("shapes_equal_shape_identified_with_its_wire_image", 1)
				}
			case same:
				r.Count("shapes_equal_false_although_same_not_judged", 1)
			default:
				r.Count("shapes_equal_false_and_different", 1)
			}
		}
	}
	// ToScalar totality: no panic on any shape; a shape converts like its wire image.
	for i := 0; i < n; i++ {
		if !r.Mine(n*n + i) {
			continue
		}
		sv := A[i]
		r.Eval(1)
		r.Count("shapes_toscalar_calls", 1)
		r.Distinct(vlib.Hash("shape-ts", i))
		wit := map[string]interface{}{"value": sv.name, "text": tvStr(sv.v)}
		got, err, pan := callToScalar(sv.v)
		if pan != nil {
			sig := "panic:toscalar"
			if containsNilValue(sv.v) {
				sig = "panic:toscalar:nil-value" // the nil *TypedValue itself, directly or as a leaf-list element
			}
			r.Violation("equal-shapes", n*n+i, sig, fmt.Sprintf("ToScalar(%s) panicked: %v", sv.name, pan), wit)
			continue
		}
		if err != nil {
			r.Count("shapes_toscalar_error_returned", 1)
		} else {
			r.Count("shapes_toscalar_value_returned", 1)
		}
		if sv.image || sv.v == nil {
			continue
		}
		img, _ := wire(sv.v)
		got2, err2, pan2 := callToScalar(img)
		if pan2 != nil {
			continue // judged at the image's own index
		}
		if (err == nil) != (err2 == nil) || (err == nil && !sameConverted(got, got2)) {
			r.Violation("equal-shapes", n*n+i, "toscalar:shape-differs-from-wire-image",
				fmt.Sprintf("ToScalar(%s) = %#v (err %v) but ToScalar of its wire image = %#v (err %v); both denote the same message", sv.name, got, err, got2, err2), wit)
		} else {
			r.Count("shapes_toscalar_agrees_with_wire_image", 1)
		}
	}
}

// wireOrSelf returns the wire-normalised form of v (v itself if it cannot be marshalled).
func wireOrSelf(v *pb.TypedValue) *pb.TypedValue {
	if v == nil {
		return nil
	}
	if w, err := wire(v); err == nil {
		return w
	}
	return v
}

// sameConverted compares two ToScalar results; nil and empty byte slices /
// lists are the same conversion result.
func sameConverted(a, b interface{}) bool {
	switch x := a.(type) {
	case []byte:
		y, ok := b.([]byte)
		return ok && bytes.Equal(x, y)
	case []interface{}:
		y, ok := b.([]interface{})
		if !ok || len(x) != len(y) {
			return false
		}
		for i := range x {
			if !sameConverted(x[i], y[i]) {
				return false
			}
		}
		return true
	}
	return sameDecoded(a, b)
}
