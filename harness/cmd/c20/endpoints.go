package main

import (
	"context"
	"fmt"
	"io"
	"math/rand"
	"net"
	"time"

	"google.golang.org/grpc"
	"google.golang.org/grpc/credentials/insecure"
	"google.golang.org/protobuf/proto"

	gpb "github.com/openconfig/gnmi/proto/gnmi"
	fgnmi "github.com/openconfig/gnmi/testing/fake/gnmi"
	fpb "github.com/openconfig/gnmi/testing/fake/proto"
	"github.com/openconfig/gnmi/testing/fake/queue"

	"verif/internal/vlib"
)

// expectResp is the documented wire form of one generated value: an update
// (or delete) notification at the value's path and timestamp carrying
// queue.TypedValueOf(v).
func expectResp(v *fpb.Value) *gpb.SubscribeResponse {
	n := &gpb.Notification{Timestamp: v.GetTimestamp().GetTimestamp()}
	if kindOf(v) == "delete" {
		n.Delete = []*gpb.Path{{Element: v.GetPath()}}
	} else {
		n.Update = []*gpb.Update{{Path: &gpb.Path{Element: v.GetPath()}, Val: queue.TypedValueOf(v)}}
	}
	return &gpb.SubscribeResponse{Response: &gpb.SubscribeResponse_Update{Update: n}}
}

func isSync(r *gpb.SubscribeResponse) bool {
	_, ok := r.GetResponse().(*gpb.SubscribeResponse_SyncResponse)
	return ok
}

func respKey(r *gpb.SubscribeResponse) string {
	n := r.GetUpdate()
	if len(n.GetUpdate()) > 0 {
		return keyOf(n.GetUpdate()[0].GetPath().GetElement())
	}
	if len(n.GetDelete()) > 0 {
		return keyOf(n.GetDelete()[0].GetElement())
	}
	return "?"
}

func shortResp(r *gpb.SubscribeResponse) string {
	s := fmt.Sprint(r)
	if len(s) > 200 {
		s = s[:200] + "…"
	}
	return s
}

// judgeResponses compares what an endpoint (client / agent) sent with the
// queue's own sequence exp for the same configuration and seed. limit is the
// number of responses after which the harness itself stopped the stream;
// ended reports that the endpoint ended the stream on its own.
func judgeResponses(r *vlib.Run, pfx string, resps []*gpb.SubscribeResponse, exp *trace, pristine *fpb.Config, ended bool) *mismatch {
	var data []*gpb.SubscribeResponse
	syncAt := []int{}
	seen := map[string]bool{}
	var maxInit int64
	for _, v := range pristine.Values {
		if t := v.GetTimestamp().GetTimestamp(); t > maxInit {
			maxInit = t
		}
	}
	pastAllInitial := false
	for i, x := range resps {
		if isSync(x) {
			syncAt = append(syncAt, i)
			if !x.GetSyncResponse() {
				return &mismatch{"sync-false", fmt.Sprintf("response %d is a sync response with value false", i)}
			}
			if pristine.DisableSync {
				return &mismatch{"sync-unexpected", fmt.Sprintf("response %d is a sync marker although disable_sync is set", i)}
			}
			if len(syncAt) > 1 {
				return &mismatch{"sync-twice", fmt.Sprintf("sync marker sent at responses %d and %d", syncAt[0], i)}
			}
			for _, v := range pristine.Values {
				if !seen[keyOf(v.GetPath())] {
					return &mismatch{"sync-early", fmt.Sprintf("sync marker sent as response %d before the first emission of the value at %v (initial timestamp %d)", i, v.GetPath(), v.GetTimestamp().GetTimestamp())}
				}
			}
			r.Count(pfx+"sync_marker_judged", 1)
			continue
		}
		if x.GetUpdate() == nil {
			return &mismatch{"response-kind", fmt.Sprintf("response %d is neither an update nor a sync: %s", i, shortResp(x))}
		}
		seen[respKey(x)] = true
		if x.GetUpdate().GetTimestamp() > maxInit {
			pastAllInitial = true
		}
		data = append(data, x)
	}
	for i, x := range data {
		if i >= len(exp.vals) {
			return &mismatch{"extra-response", fmt.Sprintf("%d data responses, the queue's own sequence has %d values (end %q); first extra: %s", len(data), len(exp.vals), exp.end, shortResp(x))}
		}
		if want := expectResp(exp.vals[i]); !proto.Equal(x, want) {
			return &mismatch{"stream-differs", fmt.Sprintf("data response %d differs from the queue's sequence: got %s, want %s", i, shortResp(x), shortResp(want))}
		}
	}
	r.Count(pfx+"responses_compared", int64(len(data)))
	if ended {
		if exp.end == "horizon" || len(data) != len(exp.vals) {
			return &mismatch{"truncated", fmt.Sprintf("the endpoint ended the stream after %d data responses; the queue's own sequence has %d values and ends in %q", len(data), len(exp.vals), exp.end)}
		}
		r.Count(pfx+"streams_ended_by_endpoint_"+exp.end, 1)
	} else {
		r.Count(pfx+"streams_stopped_by_harness", 1)
	}
	if !pristine.DisableSync && len(syncAt) == 0 {
		if ended && exp.end == "exhausted" {
			return &mismatch{"sync-missing", fmt.Sprintf("the stream ran to exhaustion (%d data responses) without a sync marker", len(data))}
		}
		if pastAllInitial {
			return &mismatch{"sync-missing", fmt.Sprintf("the stream advanced beyond the latest initial timestamp %d (%d data responses) without a sync marker", maxInit, len(data))}
		}
		r.Count(pfx+"sync_not_yet_due_when_stream_stopped", 1)
	}
	return nil
}

// expectedTrace is the queue's own sequence for cfg (no sync marker).
func expectedTrace(pristine *fpb.Config, limit int) (*trace, *mismatch) {
	q, _, pan := safeNew(false, pristine.Seed, cloneCfg(pristine).Values, false)
	if pan != nil {
		return nil, &mismatch{"panic:new", fmt.Sprintf("queue.New panicked: %v", pan)}
	}
	return drive(q, limit, nil)
}

// runClient runs the real fake client on an in-memory stream and stops it
// after limit responses.
func runClient(cfg *fpb.Config, limit int, gate ...<-chan struct{}) (resps []*gpb.SubscribeResponse, ended bool, mm *mismatch, inconclusive string) {
	st := vlib.NewStream(context.Background(), "c20")
	defer st.Cancel()
	c := fgnmi.NewClient(cfg)
	st.Push(&gpb.SubscribeRequest{Request: &gpb.SubscribeRequest_Subscribe{Subscribe: &gpb.SubscriptionList{Mode: gpb.SubscriptionList_STREAM}}})
	st.CloseSend()
	stopped := false
	st.OnSend = func(i int, _ *gpb.SubscribeResponse) {
		if i+1 >= limit {
			stopped = true
			c.Close()
		}
	}
	type res struct {
		err error
		pan interface{}
	}
	done := make(chan res, 1)
	for _, g := range gate {
		<-g // barrier: parallel mode starts several clients together
	}
	go func() {
		var x res
		defer func() {
			if p := recover(); p != nil {
				x.pan = p
			}
			done <- x
		}()
		x.err = c.Run(st)
	}()
	select {
	case x := <-done:
		if x.pan != nil {
			return st.Sent(), false, &mismatch{"panic:client", fmt.Sprintf("Client.Run panicked: %v", x.pan)}, ""
		}
		if x.err != nil {
			return st.Sent(), false, &mismatch{"client-run-error", fmt.Sprintf("Client.Run returned %v", x.err)}, ""
		}
	case <-time.After(120 * time.Second):
		c.Close()
		return nil, false, nil, "client watchdog (120 s) fired"
	}
	return st.Sent(), !stopped, nil, ""
}

func endpointConfig(rng *rand.Rand) (cfg *fpb.Config, tag string) {
	if rng.Intn(10) == 0 {
		c, _, defect := genInvalid(rng, 4)
		return c, "invalid:" + defect
	}
	cfg = genConfig(rng, cfgOpts{maxVals: 6, nonZeroSeed: true})
	cfg.DisableSync = rng.Intn(5) == 0
	return cfg, "valid"
}

func endpointLimit(rng *rand.Rand, cfg *fpb.Config) int {
	if fin, total := allFinite(cfg); fin {
		return total + 5
	}
	return []int{60, 200, 500}[rng.Intn(3)]
}

func clientTrial(r *vlib.Run, trial int, rng *rand.Rand) {
	const mode = "client"
	cfg, tag := endpointConfig(rng)
	pristine := cloneCfg(cfg)
	limit := endpointLimit(rng, cfg)
	extra := map[string]interface{}{"limit": limit, "config_class": tag}
	r.Eval(1)
	exp, mm := expectedTrace(pristine, limit+2)
	if mm != nil {
		r.Violation(mode, trial, mm.sig, mm.what, witness(pristine, extra, nil))
		return
	}
	// Twice on the same configuration object: the second client reuses it.
	for pass := 0; pass < 2; pass++ {
		resps, ended, mm, inc := runClient(cfg, limit)
		if inc != "" {
			r.Inconclusive(inc)
			return
		}
		if mm == nil {
			mm = judgeResponses(r, "client_", resps, exp, pristine, ended)
		}
		if mm != nil {
			extra["pass"] = pass
			extra["responses_received"] = len(resps)
			r.Violation(mode, trial, mm.sig, fmt.Sprintf("fake client, pass %d: %s", pass, mm.what), witness(pristine, extra, nil))
			return
		}
	}
	r.Count("client_runs", 2)
	if len(exp.vals) > 0 {
		b, _ := proto.MarshalOptions{Deterministic: true}.Marshal(pristine)
		r.Distinct(vlib.Hash(mode, b))
	}
}

// clientSyncValueTrial: a configuration that contains a sync VALUE of its own
// (one emission, scheduled before, between or after the data values) with
// disable_sync off. The sync marker the client owes "after the first emission
// of every configured value" is then not the only sync response of the stream;
// what the statement demands is decidable all the same: once every data value
// has been emitted for the first time, a sync response must follow (at the
// latest when the finite stream is exhausted), and nothing else may be lost.
func clientSyncValueTrial(r *vlib.Run, trial int, rng *rand.Rand) {
	const mode = "clientsyncvalue"
	nData := 1 + rng.Intn(4)
	cfg := &fpb.Config{Target: "c20", Seed: 1 + rng.Int63n(1000)}
	maxTS := int64(0)
	for i := 0; i < nData; i++ {
		ts := int64(10 + rng.Intn(40))
		if ts > maxTS {
			maxTS = ts
		}
		cfg.Values = append(cfg.Values, &fpb.Value{Path: []string{fmt.Sprintf("d%d", i)}, Timestamp: &fpb.Timestamp{Timestamp: ts, DeltaMin: 1, DeltaMax: 3}, Repeat: int32(1 + rng.Intn(3)),
			Value: &fpb.Value_IntValue{IntValue: &fpb.IntValue{Value: int64(i), Distribution: &fpb.IntValue_Range{Range: &fpb.IntRange{Minimum: 0, Maximum: 100}}}}})
	}
	syncTS := []int64{1, 5, int64(10 + rng.Intn(40)), maxTS, maxTS + 7}[rng.Intn(5)]
	sv := &fpb.Value{Path: []string{"s"}, Timestamp: &fpb.Timestamp{Timestamp: syncTS}, Repeat: 1, Value: &fpb.Value_Sync{Sync: 1}}
	at := rng.Intn(len(cfg.Values) + 1)
	cfg.Values = append(cfg.Values[:at], append([]*fpb.Value{sv}, cfg.Values[at:]...)...)
	pristine := cloneCfg(cfg)
	r.Eval(1)
	total := 1
	for _, v := range pristine.Values {
		if v.GetSync() == 0 {
			total += int(v.Repeat)
		}
	}
	resps, ended, mm, inc := runClient(cfg, total+8)
	if inc != "" {
		r.Inconclusive(inc)
		return
	}
	extra := map[string]interface{}{"configured_sync_value_timestamp": syncTS, "latest_initial_data_timestamp": maxTS}
	if mm != nil {
		r.Violation(mode, trial, mm.sig, mm.what, witness(pristine, extra, nil))
		return
	}
	firstSeen := map[string]bool{}
	lastFirst, lastSync, nSync, nData2 := -1, -1, 0, 0
	for i, x := range resps {
		if isSync(x) {
			nSync++
			lastSync = i
			continue
		}
		nData2++
		if k := respKey(x); !firstSeen[k] {
			firstSeen[k] = true
			lastFirst = i
		}
	}
	extra["responses"] = len(resps)
	extra["sync_responses"] = nSync
	r.Count("clientsyncvalue_runs", 1)
	switch {
	case !ended:
		r.Inconclusive("clientsyncvalue: the finite stream did not end within its response budget")
	case len(firstSeen) != nData || nData2 != total-1:
		r.Violation(mode, trial, "truncated", fmt.Sprintf("fake client with a configured sync value: %d data responses for %d values, expected %d for %d", nData2, len(firstSeen), total-1, nData), witness(pristine, extra, nil))
	case lastSync < lastFirst:
		r.Violation(mode, trial, "sync-missing", fmt.Sprintf("fake client with a configured sync value (timestamp %d) and disable_sync off: the last first-emission of a configured value is response %d, but no sync response follows it (%d sync responses, the last one at %d): the sync marker owed after the first emission of every configured value was never sent", syncTS, lastFirst, nSync, lastSync), witness(pristine, extra, nil))
	default:
		r.Count("clientsyncvalue_sync_after_all_first_emissions", 1)
		b, _ := proto.MarshalOptions{Deterministic: true}.Marshal(pristine)
		r.Distinct(vlib.Hash(mode, b))
	}
}

func agentTrial(r *vlib.Run, trial int, rng *rand.Rand) {
	const mode = "agent"
	cfg, tag := endpointConfig(rng)
	pristine := cloneCfg(cfg)
	limit := endpointLimit(rng, cfg)
	extra := map[string]interface{}{"limit": limit, "config_class": tag}
	r.Eval(1)
	exp, mm := expectedTrace(pristine, limit+2)
	if mm != nil {
		r.Violation(mode, trial, mm.sig, mm.what, witness(pristine, extra, nil))
		return
	}
	a, err := fgnmi.New(cfg, nil)
	if err != nil {
		r.Inconclusive("agent: cannot start: " + err.Error())
		return
	}
	defer a.Close()
	_, port, err := net.SplitHostPort(a.Address())
	if err != nil {
		r.Inconclusive("agent: bad address " + a.Address())
		return
	}
	conn, err := grpc.NewClient("passthrough:///127.0.0.1:"+port, grpc.WithTransportCredentials(insecure.NewCredentials()))
	if err != nil {
		r.Inconclusive("agent: dial: " + err.Error())
		return
	}
	defer conn.Close()
	cl := gpb.NewGNMIClient(conn)
	for pass := 0; pass < 2; pass++ {
		ctx, cancel := context.WithTimeout(context.Background(), 120*time.Second)
		resps, ended, inc := subscribeOnce(ctx, cl, limit)
		cancel()
		if inc != "" {
			// Still hold the received prefix against the expectation.
			if mm := judgeResponses(r, "agent_unfinished_", resps, exp, pristine, false); mm != nil && mm.sig != "sync-missing" {
				r.Violation(mode, trial, mm.sig, fmt.Sprintf("fake agent, pass %d: %s", pass, mm.what), witness(pristine, extra, nil))
				return
			}
			r.Inconclusive("agent: " + inc)
			return
		}
		if mm := judgeResponses(r, "agent_", resps, exp, pristine, ended); mm != nil {
			extra["pass"] = pass
			extra["responses_received"] = len(resps)
			r.Violation(mode, trial, mm.sig, fmt.Sprintf("fake agent, pass %d: %s", pass, mm.what), witness(pristine, extra, nil))
			return
		}
	}
	r.Count("agent_subscriptions", 2)
	if len(exp.vals) > 0 {
		b, _ := proto.MarshalOptions{Deterministic: true}.Marshal(pristine)
		r.Distinct(vlib.Hash(mode, b))
	}
	if r.WantSample() && trial%17 == 0 {
		r.Sample(map[string]interface{}{"mode": mode, "trial": trial, "config": cfgText(pristine), "limit": limit, "queue_sequence_length": len(exp.vals), "queue_end": exp.end})
	}
}

func subscribeOnce(ctx context.Context, cl gpb.GNMIClient, limit int) (resps []*gpb.SubscribeResponse, ended bool, inconclusive string) {
	ctx, cancel := context.WithCancel(ctx)
	defer cancel()
	s, err := cl.Subscribe(ctx)
	if err != nil {
		return nil, false, "Subscribe: " + err.Error()
	}
	if err := s.Send(&gpb.SubscribeRequest{Request: &gpb.SubscribeRequest_Subscribe{Subscribe: &gpb.SubscriptionList{Mode: gpb.SubscriptionList_STREAM}}}); err != nil {
		return nil, false, "Send: " + err.Error()
	}
	for len(resps) < limit {
		x, err := s.Recv()
		if err == io.EOF {
			return resps, true, ""
		}
		if err != nil {
			return resps, false, "Recv: " + err.Error()
		}
		resps = append(resps, x)
	}
	return resps, false, ""
}

// ---- fixed generator ----

func genFixed(rng *rand.Rand) []*gpb.SubscribeResponse {
	n := rng.Intn(13)
	out := make([]*gpb.SubscribeResponse, 0, n+rng.Intn(3)) // sometimes spare capacity
	for i := 0; i < n; i++ {
		v := &fpb.Value{Path: genPath(rng, rng.Intn(4)), Timestamp: &fpb.Timestamp{Timestamp: rng.Int63n(50)}}
		setValue(rng, v, pickKind(rng, false), "const")
		out = append(out, expectResp(v))
	}
	return out
}

func cloneResps(in []*gpb.SubscribeResponse) []*gpb.SubscribeResponse {
	out := make([]*gpb.SubscribeResponse, len(in))
	for i, x := range in {
		out[i] = proto.Clone(x).(*gpb.SubscribeResponse)
	}
	return out
}

func fixedTrial(r *vlib.Run, trial int, rng *rand.Rand) {
	const mode = "fixed"
	list := genFixed(rng)
	pristine := cloneResps(list)
	extraN := rng.Intn(3)
	added := genFixed(rng)
	if len(added) > extraN {
		added = added[:extraN]
	}
	r.Eval(1)
	wit := func() map[string]interface{} {
		s := []string{}
		for _, x := range pristine {
			s = append(s, shortResp(x))
		}
		return map[string]interface{}{"responses": s, "added": len(added)}
	}
	want := append(cloneResps(pristine), cloneResps(added)...)
	// Queue level, twice from the same list object.
	for pass := 0; pass < 2; pass++ {
		var q *queue.FixedQueue
		func() {
			defer func() { recover() }()
			q = queue.NewFixed(list[:len(list):len(list)], false)
			for _, x := range added {
				q.Add(x)
			}
		}()
		if q == nil {
			r.Violation(mode, trial, "panic:new", "queue.NewFixed/Add panicked", wit())
			return
		}
		for i := 0; i <= len(want)+2; i++ {
			v, err, pan := safeNext(q)
			if pan != nil || err != nil {
				r.Violation(mode, trial, "fixed-next-failed", fmt.Sprintf("FixedQueue.Next call %d: error %v, panic %v", i, err, pan), wit())
				return
			}
			if i >= len(want) {
				if v != nil {
					r.Violation(mode, trial, "repeat-exceeded", fmt.Sprintf("FixedQueue.Next call %d returned %v after all %d configured responses were delivered", i, v, len(want)), wit())
					return
				}
				continue
			}
			got, ok := v.(*gpb.SubscribeResponse)
			if v == nil || !ok {
				r.Violation(mode, trial, "repeat-short", fmt.Sprintf("FixedQueue.Next call %d returned %v (%T), %d responses configured", i, v, v, len(want)), wit())
				return
			}
			if !proto.Equal(got, want[i]) {
				r.Violation(mode, trial, "stream-differs", fmt.Sprintf("FixedQueue.Next call %d (pass %d) returned %s, configured %s", i, pass, shortResp(got), shortResp(want[i])), wit())
				return
			}
			r.Count("fixed_queue_elements_compared", 1)
		}
	}
	// Client level: fixed generator + sync marker once, after everything.
	cfg := &fpb.Config{Target: "c20", DisableSync: rng.Intn(4) == 0, Generator: &fpb.Config_Fixed{Fixed: &fpb.FixedGenerator{Responses: list}}}
	for pass := 0; pass < 2; pass++ {
		resps, ended, mm, inc := runClient(cfg, len(pristine)+10)
		if inc != "" {
			r.Inconclusive(inc)
			return
		}
		if mm == nil && !ended {
			mm = &mismatch{"extra-response", fmt.Sprintf("the client sent at least %d responses for %d configured ones", len(resps), len(pristine))}
		}
		if mm == nil {
			wantN := len(pristine)
			if !cfg.DisableSync {
				wantN++
			}
			switch {
			case len(resps) != wantN:
				sig := "truncated"
				if len(resps) > wantN {
					sig = "extra-response"
				}
				if !cfg.DisableSync && len(resps) == wantN-1 {
					sig = "sync-missing"
				}
				mm = &mismatch{sig, fmt.Sprintf("the client sent %d responses, expected the %d configured ones (+ sync: %v)", len(resps), len(pristine), !cfg.DisableSync)}
			default:
				for i, x := range resps {
					if i < len(pristine) {
						if !proto.Equal(x, pristine[i]) {
							sig := "stream-differs"
							if isSync(x) {
								sig = "sync-early"
							}
							mm = &mismatch{sig, fmt.Sprintf("response %d is %s, configured %s", i, shortResp(x), shortResp(pristine[i]))}
							break
						}
					} else if !isSync(x) || !x.GetSyncResponse() {
						mm = &mismatch{"sync-missing", fmt.Sprintf("response %d after the configured ones is %s, expected the sync marker", i, shortResp(x))}
					}
				}
			}
		}
		if mm != nil {
			w := wit()
			w["disable_sync"] = cfg.DisableSync
			r.Violation(mode, trial, mm.sig, fmt.Sprintf("fixed generator through the fake client, pass %d: %s", pass, mm.what), w)
			return
		}
		r.Count("fixed_client_responses_compared", int64(len(resps)))
	}
	if len(pristine) > 0 {
		r.Distinct(vlib.Hash(mode, fmt.Sprint(pristine), len(added), cfg.DisableSync))
	}
}
