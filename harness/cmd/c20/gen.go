package main

import (
	"fmt"
	"math/rand"

	fpb "github.com/openconfig/gnmi/testing/fake/proto"
)

// Magnitudes stay at or below 2^61 (< 2^62, DESIGN.md C20) so that the
// generator's own int64 arithmetic cannot overflow.
const big = int64(1) << 61

type tsProfile struct{ base, spread int64 }

type cfgOpts struct {
	syncKind    bool // allow configured values of kind sync
	forceFinite bool // every value has a finite repeat
	maxVals     int
	nonZeroSeed bool
}

var strPool = []string{"", "a", "b", "up", "down", "é", "x y", "0", "DOWN"}

func genTS(rng *rand.Rand, p tsProfile, unbounded bool) *fpb.Timestamp {
	if rng.Intn(20) == 0 {
		return nil // the queue documents a default for a missing timestamp
	}
	t := &fpb.Timestamp{Timestamp: p.base + rng.Int63n(p.spread)}
	x := rng.Intn(100)
	if unbounded && x < 25 && rng.Intn(5) != 0 {
		x = 25 + rng.Intn(75) // few frozen unbounded values: they starve everything later
	}
	switch {
	case x < 25: // frozen clock: delta 0..0
	case x < 50:
		k := 1 + rng.Int63n(5)
		t.DeltaMin, t.DeltaMax = k, k
	case x < 85:
		a := rng.Int63n(6)
		t.DeltaMin, t.DeltaMax = a, a+1+rng.Int63n(10)
	default:
		a := rng.Int63n(1_000_000)
		t.DeltaMin, t.DeltaMax = a, a+rng.Int63n(1_000_000_000)
	}
	return t
}

func genIntBounds(rng *rand.Rand, unsigned bool) (min, max int64) {
	switch x := rng.Intn(100); {
	case x < 55:
		min = rng.Int63n(41) - 20
		max = min + rng.Int63n(41)
	case x < 67:
		min = rng.Int63n(41) - 20
		max = min
	case x < 88:
		min = rng.Int63n(2_000_001) - 1_000_000
		max = min + rng.Int63n(2_000_001)
	default:
		min = -big + rng.Int63n(1000)
		max = big - rng.Int63n(1000)
	}
	if unsigned && min < 0 {
		// shift into the non-negative half, keeping the width below 2^61
		if max-min > big-1000 {
			min, max = rng.Int63n(1000), big-rng.Int63n(1000)
		} else {
			max -= min
			min = 0
			if rng.Intn(2) == 0 {
				s := rng.Int63n(50)
				min += s
				max += s
			}
		}
	}
	return
}

func pickIn(rng *rand.Rand, min, max int64) int64 {
	switch rng.Intn(6) {
	case 0:
		return min
	case 1:
		return max
	}
	return min + rng.Int63n(max-min+1)
}

func genIntDelta(rng *rand.Rand) (dmin, dmax int64) {
	switch x := rng.Intn(100); {
	case x < 30:
		dmin = 1 + rng.Int63n(5)
		dmax = dmin + rng.Int63n(5)
	case x < 55:
		dmax = -1 - rng.Int63n(5)
		dmin = dmax - rng.Int63n(5)
	case x < 88:
		dmin = -rng.Int63n(6)
		dmax = rng.Int63n(6)
		if dmin == 0 && dmax == 0 {
			dmax = 1
		}
	default:
		dmin = -(int64(1) << 60) + rng.Int63n(1000)
		dmax = (int64(1) << 60) - rng.Int63n(1000)
	}
	return
}

func genDoubleBounds(rng *rand.Rand) (min, max float64) {
	var w float64
	switch x := rng.Intn(100); {
	case x < 55:
		min = float64(rng.Intn(41)-20) + rng.Float64()
		w = rng.Float64() * 40
	case x < 67:
		min = float64(rng.Intn(41) - 20)
		w = 0
	case x < 88:
		min = (rng.Float64() - 0.5) * 2e6
		w = rng.Float64() * 2e6
	default:
		min = -1e15
		w = 2e15
	}
	return min, min + w
}

func genDoubleDelta(rng *rand.Rand) (dmin, dmax float64) {
	switch x := rng.Intn(100); {
	case x < 35:
		dmin = rng.Float64() * 3
		dmax = dmin + rng.Float64()*3
	case x < 65:
		dmax = -rng.Float64() * 3
		dmin = dmax - rng.Float64()*3
	default:
		dmin = -rng.Float64() * 3
		dmax = rng.Float64() * 3
	}
	if dmin == 0 && dmax == 0 {
		dmax = 0.5
	}
	return
}

var kindNames = []string{"int", "uint", "double", "string", "strlist", "bool", "delete", "sync"}

func pickKind(rng *rand.Rand, syncKind bool) string {
	for {
		x := rng.Intn(100)
		switch {
		case x < 22:
			return "int"
		case x < 38:
			return "uint"
		case x < 54:
			return "double"
		case x < 66:
			return "string"
		case x < 78:
			return "strlist"
		case x < 86:
			return "bool"
		case x < 94:
			return "delete"
		default:
			if syncKind {
				return "sync"
			}
		}
	}
}

func pickStrs(rng *rand.Rand, min, max int) []string {
	n := min + rng.Intn(max-min+1)
	out := make([]string, n)
	for i := range out {
		out[i] = strPool[rng.Intn(len(strPool))]
	}
	return out
}

// setValue fills v.Value with a valid configuration of the given kind. dist:
// "" = random choice, or one of const / range / cumrange / list.
func setValue(rng *rand.Rand, v *fpb.Value, kind, dist string) {
	if dist == "" {
		switch x := rng.Intn(100); {
		case x < 20:
			dist = "const"
		case x < 48:
			dist = "range"
		case x < 78:
			dist = "cumrange"
		default:
			dist = "list"
		}
		switch kind {
		case "string", "strlist", "bool":
			if dist != "const" {
				dist = "list"
			} else if rng.Intn(2) == 0 {
				dist = "list"
			}
		}
	}
	random := rng.Intn(2) == 0
	nopt := 1 + rng.Intn(5)
	switch kind {
	case "int":
		iv := &fpb.IntValue{}
		switch dist {
		case "const":
			iv.Value = rng.Int63n(2001) - 1000
		case "range", "cumrange":
			min, max := genIntBounds(rng, false)
			rg := &fpb.IntRange{Minimum: min, Maximum: max}
			if dist == "cumrange" {
				rg.DeltaMin, rg.DeltaMax = genIntDelta(rng)
			}
			iv.Value = pickIn(rng, min, max)
			iv.Distribution = &fpb.IntValue_Range{Range: rg}
		case "list":
			l := &fpb.IntList{Random: random}
			for i := 0; i < nopt; i++ {
				l.Options = append(l.Options, rng.Int63n(41)-20)
			}
			if rng.Intn(8) == 0 {
				l.Options[0] = -big
			}
			iv.Value = rng.Int63n(5)
			iv.Distribution = &fpb.IntValue_List{List: l}
		}
		v.Value = &fpb.Value_IntValue{IntValue: iv}
	case "uint":
		uv := &fpb.UintValue{}
		switch dist {
		case "const":
			uv.Value = uint64(rng.Int63n(2001))
		case "range", "cumrange":
			min, max := genIntBounds(rng, true)
			rg := &fpb.UintRange{Minimum: uint64(min), Maximum: uint64(max)}
			if dist == "cumrange" {
				rg.DeltaMin, rg.DeltaMax = genIntDelta(rng)
			}
			uv.Value = uint64(pickIn(rng, min, max))
			uv.Distribution = &fpb.UintValue_Range{Range: rg}
		case "list":
			l := &fpb.UintList{Random: random}
			for i := 0; i < nopt; i++ {
				l.Options = append(l.Options, uint64(rng.Int63n(41)))
			}
			if rng.Intn(8) == 0 {
				l.Options[0] = uint64(big)
			}
			uv.Value = uint64(rng.Int63n(5))
			uv.Distribution = &fpb.UintValue_List{List: l}
		}
		v.Value = &fpb.Value_UintValue{UintValue: uv}
	case "double":
		dv := &fpb.DoubleValue{}
		switch dist {
		case "const":
			dv.Value = (rng.Float64() - 0.5) * 2000
		case "range", "cumrange":
			min, max := genDoubleBounds(rng)
			rg := &fpb.DoubleRange{Minimum: min, Maximum: max}
			if dist == "cumrange" {
				rg.DeltaMin, rg.DeltaMax = genDoubleDelta(rng)
			}
			x := min + rng.Float64()*(max-min)
			switch rng.Intn(6) {
			case 0:
				x = min
			case 1:
				x = max
			}
			if x < min {
				x = min
			}
			if x > max {
				x = max
			}
			dv.Value = x
			dv.Distribution = &fpb.DoubleValue_Range{Range: rg}
		case "list":
			l := &fpb.DoubleList{Random: random}
			for i := 0; i < nopt; i++ {
				l.Options = append(l.Options, float64(rng.Intn(41)-20)/4)
			}
			dv.Value = float64(rng.Intn(5))
			dv.Distribution = &fpb.DoubleValue_List{List: l}
		}
		v.Value = &fpb.Value_DoubleValue{DoubleValue: dv}
	case "string":
		sv := &fpb.StringValue{Value: strPool[rng.Intn(len(strPool))]}
		if dist == "list" {
			sv.Distribution = &fpb.StringValue_List{List: &fpb.StringList{Options: pickStrs(rng, 1, 5), Random: random}}
		}
		v.Value = &fpb.Value_StringValue{StringValue: sv}
	case "strlist":
		sv := &fpb.StringListValue{Value: pickStrs(rng, 0, 3)}
		if dist == "list" {
			sv.Distribution = &fpb.StringListValue_List{List: &fpb.StringList{Options: pickStrs(rng, 1, 5), Random: random}}
		}
		v.Value = &fpb.Value_StringListValue{StringListValue: sv}
	case "bool":
		bv := &fpb.BoolValue{Value: rng.Intn(2) == 0}
		if dist == "list" {
			l := &fpb.BoolList{Random: random}
			for i := 0; i < 1+rng.Intn(4); i++ {
				l.Options = append(l.Options, rng.Intn(2) == 0)
			}
			bv.Distribution = &fpb.BoolValue_List{List: l}
		}
		v.Value = &fpb.Value_BoolValue{BoolValue: bv}
	case "delete":
		v.Value = &fpb.Value_Delete{Delete: &fpb.DeleteValue{}}
	case "sync":
		v.Value = &fpb.Value_Sync{Sync: uint64(rng.Intn(3))}
	}
}

func genPath(rng *rand.Rand, idx int) []string {
	switch rng.Intn(3) {
	case 0:
		return []string{fmt.Sprintf("p%d", idx)}
	case 1:
		return []string{"c20", fmt.Sprintf("v%d", idx)}
	}
	return []string{"interfaces", fmt.Sprintf("interface[name=e%d]", idx), "state", "counter"}
}

func genRepeat(rng *rand.Rand) int32 {
	switch x := rng.Intn(100); {
	case x < 20:
		return 1
	case x < 45:
		return int32(2 + rng.Intn(3))
	case x < 90:
		return int32(5 + rng.Intn(26))
	}
	return int32(100 + rng.Intn(201))
}

func genSeed(rng *rand.Rand) int64 {
	switch rng.Intn(10) {
	case 0:
		return -1 - rng.Int63n(1000)
	case 1:
		return rng.Int63()
	}
	return 1 + rng.Int63n(1000)
}

func genConfig(rng *rand.Rand, o cfgOpts) *fpb.Config {
	c := &fpb.Config{Target: "c20"}
	if o.nonZeroSeed || rng.Intn(7) != 0 {
		c.Seed = genSeed(rng)
	}
	var p tsProfile
	switch rng.Intn(4) {
	case 0:
		p.base = 0
	case 1:
		p.base = rng.Int63n(5)
	case 2:
		p.base = 1_600_000_000_000_000_000
	case 3:
		p.base = int64(1) << 40
	}
	p.spread = []int64{1, 3, 10, 1000}[rng.Intn(4)]
	n := 1 + rng.Intn(o.maxVals)
	if rng.Intn(40) == 0 {
		n = 0
	}
	// repeat regime: 0 all finite, 1 mixed, 2 all unbounded
	regime := 0
	if !o.forceFinite {
		switch x := rng.Intn(100); {
		case x < 50:
		case x < 85:
			regime = 1
		default:
			regime = 2
		}
	}
	for i := 0; i < n; i++ {
		v := &fpb.Value{Path: genPath(rng, i)}
		unb := regime == 2 || (regime == 1 && rng.Intn(2) == 0)
		if !unb {
			v.Repeat = genRepeat(rng)
		}
		v.Timestamp = genTS(rng, p, unb)
		if rng.Intn(10) < 4 {
			v.Seed = genSeed(rng)
			if rng.Intn(4) == 0 && i > 0 && c.Values[i-1].Seed != 0 {
				v.Seed = c.Values[i-1].Seed
			}
		}
		setValue(rng, v, pickKind(rng, o.syncKind), "")
		c.Values = append(c.Values, v)
	}
	return c
}

// allFinite reports whether every value has a finite repeat, and their sum.
func allFinite(c *fpb.Config) (bool, int) {
	total := 0
	for _, v := range c.Values {
		if v.Repeat <= 0 {
			return false, 0
		}
		total += int(v.Repeat)
	}
	return true, total
}

var defectsAny = []string{"ts-negative", "ts-delta-min-gt-max", "ts-delta-negative", "no-value"}
var defectsNum = []string{"range-min-gt-max", "value-below-min", "value-above-max", "value-delta-min-gt-max", "list-empty"}

// genInvalid returns a configuration whose other values are valid and finite
// and whose value at index victim carries exactly one defect that the
// generator documents (error strings / unit tests of queue.go) as invalid.
func genInvalid(rng *rand.Rand, maxVals int) (c *fpb.Config, victim int, defect string) {
	c = genConfig(rng, cfgOpts{forceFinite: true, maxVals: maxVals, nonZeroSeed: true})
	victim = len(c.Values)
	if victim > 0 && rng.Intn(2) == 0 {
		victim = rng.Intn(len(c.Values))
	}
	kinds := []string{"int", "uint", "double", "string", "strlist", "bool", "delete"}
	kind := kinds[rng.Intn(len(kinds))]
	var cands []string
	cands = append(cands, defectsAny...)
	switch kind {
	case "int", "uint", "double":
		cands = append(cands, defectsNum...)
		cands = append(cands, defectsNum...) // weight the value defects
	case "string", "strlist", "bool":
		cands = append(cands, "list-empty", "list-empty")
	}
	defect = cands[rng.Intn(len(cands))]
	v := &fpb.Value{Path: genPath(rng, 900+victim)}
	v.Repeat = []int32{0, 2, 3, 5}[rng.Intn(4)]
	v.Timestamp = &fpb.Timestamp{Timestamp: rng.Int63n(10), DeltaMin: 1, DeltaMax: 1 + rng.Int63n(4)}
	if rng.Intn(3) == 0 {
		v.Seed = genSeed(rng)
	}
	dist := ""
	switch defect {
	case "range-min-gt-max", "value-below-min", "value-above-max":
		dist = []string{"range", "cumrange"}[rng.Intn(2)]
	case "value-delta-min-gt-max":
		dist = "cumrange"
	case "list-empty":
		dist = "list"
	}
	setValue(rng, v, kind, dist)
	k := 1 + rng.Int63n(5)
	switch defect {
	case "ts-negative":
		v.Timestamp.Timestamp = -1 - rng.Int63n(100)
	case "ts-delta-min-gt-max":
		v.Timestamp.DeltaMin = v.Timestamp.DeltaMax + k
	case "ts-delta-negative":
		v.Timestamp.DeltaMin = -k
		if rng.Intn(2) == 0 {
			v.Timestamp.DeltaMax = -k + rng.Int63n(k)
		}
	case "no-value":
		v.Value = nil
	case "range-min-gt-max":
		switch kind {
		case "int":
			rg := v.GetIntValue().GetRange()
			rg.Minimum, rg.Maximum = rg.Maximum+k, rg.Minimum
			v.GetIntValue().Value = rg.Maximum
		case "uint":
			rg := v.GetUintValue().GetRange()
			rg.Minimum, rg.Maximum = rg.Maximum+uint64(k), rg.Minimum
			v.GetUintValue().Value = rg.Maximum
		case "double":
			rg := v.GetDoubleValue().GetRange()
			rg.Minimum, rg.Maximum = rg.Maximum+float64(k), rg.Minimum
			v.GetDoubleValue().Value = rg.Maximum
		}
	case "value-below-min":
		switch kind {
		case "int":
			v.GetIntValue().Value = v.GetIntValue().GetRange().Minimum - k
		case "uint":
			rg := v.GetUintValue().GetRange()
			if rg.Minimum < uint64(k) {
				rg.Minimum += uint64(k)
				rg.Maximum += uint64(k)
			}
			v.GetUintValue().Value = rg.Minimum - uint64(k)
		case "double":
			v.GetDoubleValue().Value = v.GetDoubleValue().GetRange().Minimum - float64(k)
		}
	case "value-above-max":
		switch kind {
		case "int":
			v.GetIntValue().Value = v.GetIntValue().GetRange().Maximum + k
		case "uint":
			v.GetUintValue().Value = v.GetUintValue().GetRange().Maximum + uint64(k)
		case "double":
			v.GetDoubleValue().Value = v.GetDoubleValue().GetRange().Maximum + float64(k)
		}
	case "value-delta-min-gt-max":
		switch kind {
		case "int":
			rg := v.GetIntValue().GetRange()
			rg.DeltaMin = rg.DeltaMax + k
		case "uint":
			rg := v.GetUintValue().GetRange()
			rg.DeltaMin = rg.DeltaMax + k
		case "double":
			rg := v.GetDoubleValue().GetRange()
			rg.DeltaMin = rg.DeltaMax + float64(k)
		}
	case "list-empty":
		switch kind {
		case "int":
			v.GetIntValue().GetList().Options = nil
		case "uint":
			v.GetUintValue().GetList().Options = nil
		case "double":
			v.GetDoubleValue().GetList().Options = nil
		case "string":
			v.GetStringValue().GetList().Options = nil
		case "strlist":
			v.GetStringListValue().GetList().Options = nil
		case "bool":
			v.GetBoolValue().GetList().Options = nil
		}
	}
	if victim == len(c.Values) {
		c.Values = append(c.Values, v)
	} else {
		c.Values[victim] = v
	}
	return c, victim, defect + "/" + kind
}
