// C20 — Synthetic target emits an ordered, bounded, reproducible update stream.
//
// Online stream monitor: generated fpb.Config values drive the real
// queue.UpdateQueue (and FixedQueue, the fake Client and the fake Agent); every
// emitted value is judged against what the property statement says about the
// pristine configuration (monitor.go), sequences of equal configurations with
// equal non-zero seeds are compared element-wise, and the responses of the
// real fake client / agent are compared with the queue's own sequence.
package main

import (
	"fmt"
	"math/rand"
	"strings"

	"google.golang.org/protobuf/encoding/prototext"
	"google.golang.org/protobuf/proto"

	fpb "github.com/openconfig/gnmi/testing/fake/proto"
	"github.com/openconfig/gnmi/testing/fake/queue"

	"verif/internal/vlib"
)

type trace struct {
	vals []*fpb.Value
	end  string // exhausted | horizon | error | stopped
	err  string
}

func cfgText(c proto.Message) string {
	s := prototext.MarshalOptions{Multiline: false}.Format(c)
	if len(s) > 6000 {
		s = s[:6000] + "…"
	}
	return s
}

func safeNext(q queue.Queue) (v interface{}, err error, pan interface{}) {
	defer func() {
		if r := recover(); r != nil {
			pan = r
		}
	}()
	v, err = q.Next()
	return
}

func safeNew(delay bool, seed int64, vals []*fpb.Value, inject bool) (q *queue.UpdateQueue, sv *fpb.Value, pan interface{}) {
	defer func() {
		if r := recover(); r != nil {
			pan = r
		}
	}()
	q = queue.New(delay, seed, vals)
	if inject {
		// The sync marker, added the way every user of the queue (the fake
		// client included) adds it: through Add at Latest.
		sv = &fpb.Value{Timestamp: &fpb.Timestamp{Timestamp: q.Latest()}, Repeat: 1, Value: &fpb.Value_Sync{Sync: 1}}
		q.Add(sv)
	}
	return
}

// drive pulls up to horizon values out of q. mon may be nil (record only).
func drive(q *queue.UpdateQueue, horizon int, mon *monitor) (*trace, *mismatch) {
	tr := &trace{end: "horizon"}
	for i := 0; i < horizon; i++ {
		v, err, pan := safeNext(q)
		if pan != nil {
			tr.end = "stopped"
			return tr, &mismatch{"panic:next", fmt.Sprintf("Next call %d panicked: %v", i, pan)}
		}
		if err != nil {
			tr.end, tr.err = "error", err.Error()
			if v != nil {
				return tr, &mismatch{"error-with-value", fmt.Sprintf("Next call %d returned both a value and the error %v", i, err)}
			}
			if mon != nil {
				// Diagnostic only: what a consumer that ignores the error would get.
				for k := 0; k < 3; k++ {
					v2, err2, pan2 := safeNext(q)
					if pan2 != nil {
						break
					}
					if err2 == nil && v2 != nil {
						mon.c("diag_value_returned_by_next_after_an_error")
					}
				}
			}
			return tr, nil
		}
		if v == nil {
			tr.end = "exhausted"
			for k := 0; k < 3; k++ {
				v2, err2, pan2 := safeNext(q)
				if pan2 != nil {
					return tr, &mismatch{"panic:next", fmt.Sprintf("Next after exhaustion panicked: %v", pan2)}
				}
				if v2 != nil || err2 != nil {
					return tr, &mismatch{"resurrected", fmt.Sprintf("Next returned (%v, %v) after it had reported exhaustion", v2, err2)}
				}
			}
			return tr, nil
		}
		fv, ok := v.(*fpb.Value)
		if !ok || fv == nil {
			tr.end = "stopped"
			return tr, &mismatch{"type", fmt.Sprintf("Next call %d returned a %T, documented *fpb.Value", i, v)}
		}
		if mon != nil {
			if mm := mon.observe(fv); mm != nil {
				tr.end = "stopped"
				tr.vals = append(tr.vals, proto.Clone(fv).(*fpb.Value))
				return tr, mm
			}
		}
		tr.vals = append(tr.vals, proto.Clone(fv).(*fpb.Value))
	}
	return tr, nil
}

// sameTrace compares two traces element-wise with proto.Equal.
func sameTrace(a, b *trace) (bool, string) {
	n := len(a.vals)
	if len(b.vals) < n {
		n = len(b.vals)
	}
	for i := 0; i < n; i++ {
		if !proto.Equal(a.vals[i], b.vals[i]) {
			return false, fmt.Sprintf("element %d differs: %s vs %s", i, short(a.vals[i]), short(b.vals[i]))
		}
	}
	if len(a.vals) != len(b.vals) || a.end != b.end {
		return false, fmt.Sprintf("lengths/end states differ: %d values ending in %q vs %d values ending in %q", len(a.vals), a.end, len(b.vals), b.end)
	}
	return true, ""
}

func cloneCfg(c *fpb.Config) *fpb.Config { return proto.Clone(c).(*fpb.Config) }

func horizonFor(rng *rand.Rand, c *fpb.Config, inject bool) int {
	if fin, total := allFinite(c); fin {
		if inject {
			total++
		}
		return total + 2
	}
	return []int{200, 500, 1000, 1000}[rng.Intn(4)]
}

func flush(r *vlib.Run, prefix string, mon *monitor) {
	for k, v := range mon.stat {
		r.Count(prefix+k, v)
	}
}

func witness(c *fpb.Config, extra map[string]interface{}, mon *monitor) map[string]interface{} {
	w := map[string]interface{}{"config": cfgText(c), "seed": c.GetSeed()}
	if mon != nil {
		w["emissions_so_far"] = mon.n
		w["last_emissions"] = mon.tail
	}
	for k, v := range extra {
		w[k] = v
	}
	return w
}

func traceSpan(tr *trace) (span int64, changes int) {
	for i := 1; i < len(tr.vals); i++ {
		d := tr.vals[i].GetTimestamp().GetTimestamp() - tr.vals[i-1].GetTimestamp().GetTimestamp()
		if d > 0 {
			span += d
			changes++
		}
	}
	return
}

func queueTrial(r *vlib.Run, trial int, rng *rand.Rand) {
	const mode = "queue"
	cfg := genConfig(rng, cfgOpts{syncKind: true, maxVals: 6 + 6*(rng.Intn(5)/4)})
	pristine := cloneCfg(cfg)
	inject := rng.Intn(2) == 0
	horizon := horizonFor(rng, cfg, inject)
	extra := map[string]interface{}{"inject_sync_via_Add_at_Latest": inject, "horizon": horizon}
	r.Eval(1)

	mon, herr := newMonitor(cloneCfg(pristine).Values)
	if herr != nil {
		r.Inconclusive(herr.Error())
		return
	}
	q, sv, pan := safeNew(false, cfg.Seed, cfg.Values, inject)
	if pan != nil {
		r.Violation(mode, trial, "panic:new", fmt.Sprintf("queue.New/Add panicked: %v", pan), witness(pristine, extra, nil))
		return
	}
	if inject {
		mon.addInjectedSync(proto.Clone(sv).(*fpb.Value))
	}
	tr, mm := drive(q, horizon, mon)
	if mm == nil && tr.end == "error" {
		mm = &mismatch{"unexpected-error", fmt.Sprintf("Next returned an error for a valid configuration after %d emissions: %s", len(tr.vals), tr.err)}
	}
	if mm == nil {
		mm = mon.finish(tr.end)
	}
	flush(r, "", mon)
	if mm != nil {
		r.Violation(mode, trial, mm.sig, mm.what, witness(pristine, extra, mon))
		return
	}
	r.Count("runs_ending_"+tr.end, 1)
	for _, v := range pristine.Values {
		r.Count("configured_kind_"+kindOf(v), 1)
	}

	// Reproducibility: equal configuration (deep clone), and the same object
	// reused after the first run, with the same non-zero seed.
	if cfg.Seed != 0 {
		q2, _, pan2 := safeNew(false, cfg.Seed, cloneCfg(pristine).Values, inject)
		q3, _, pan3 := safeNew(false, cfg.Seed, cfg.Values, inject)
		if pan2 != nil || pan3 != nil {
			r.Violation(mode, trial, "panic:new", fmt.Sprintf("queue.New/Add panicked on the second construction: %v %v", pan2, pan3), witness(pristine, extra, nil))
			return
		}
		tr2, mm2 := drive(q2, horizon, nil)
		tr3, mm3 := drive(q3, horizon, nil)
		for _, x := range []*mismatch{mm2, mm3} {
			if x != nil {
				r.Violation(mode, trial, x.sig, "second run: "+x.what, witness(pristine, extra, nil))
				return
			}
		}
		if ok, why := sameTrace(tr, tr2); !ok {
			r.Violation(mode, trial, "nondeterministic-clone", fmt.Sprintf("two queues built from equal configurations (deep clone) with seed %d emit different sequences: %s", cfg.Seed, why), witness(pristine, extra, nil))
			return
		}
		if ok, why := sameTrace(tr, tr3); !ok {
			r.Violation(mode, trial, "nondeterministic-reuse", fmt.Sprintf("a second queue built from the same configuration object with seed %d emits a different sequence: %s", cfg.Seed, why), witness(pristine, extra, nil))
			return
		}
		r.Count("determinism_pairs_compared", 2)
		r.Count("determinism_elements_compared", int64(2*len(tr.vals)))
		if trial%8 == 0 {
			// Evidence that the compared sequences do depend on the seed.
			q4, _, pan4 := safeNew(false, cfg.Seed+1, cloneCfg(pristine).Values, inject)
			if pan4 == nil {
				tr4, _ := drive(q4, horizon, nil)
				if ok, _ := sameTrace(tr, tr4); ok {
					r.Count("seed_probe_sequence_independent_of_seed", 1)
				} else {
					r.Count("seed_probe_sequence_depends_on_seed", 1)
				}
			}
		}
		if span, changes := traceSpan(tr); trial%16 == 3 && span <= 200_000 && changes <= 100 {
			// enable_delay only paces the stream (a few hundred microseconds of
			// real sleeps here); the sequence must be the same.
			q5, _, pan5 := safeNew(true, cfg.Seed, cloneCfg(pristine).Values, inject)
			if pan5 == nil {
				tr5, mm5 := drive(q5, horizon, nil)
				if mm5 != nil {
					r.Violation(mode, trial, mm5.sig, "with delay enabled: "+mm5.what, witness(pristine, extra, nil))
					return
				}
				if ok, why := sameTrace(tr, tr5); !ok {
					r.Violation(mode, trial, "nondeterministic-delay", "the same configuration and seed with delay enabled emits a different sequence: "+why, witness(pristine, extra, nil))
					return
				}
				r.Count("determinism_delay_enabled_compared", 1)
			}
		}
	} else {
		r.Count("runs_time_seeded_not_compared", 1)
	}

	if mon.emittedValues >= 2 && mon.judgedGenerated >= 1 {
		b, _ := proto.MarshalOptions{Deterministic: true}.Marshal(pristine)
		r.Distinct(vlib.Hash(mode, b, inject))
	}
	if r.WantSample() && trial%211 == 0 {
		first := []string{}
		for i, v := range tr.vals {
			if i < 10 {
				first = append(first, short(v))
			}
		}
		r.Sample(map[string]interface{}{"mode": mode, "trial": trial, "config": cfgText(pristine), "inject_sync": inject, "emissions": len(tr.vals), "end": tr.end, "first_emissions": first})
	}
}

func invalidTrial(r *vlib.Run, trial int, rng *rand.Rand) {
	const mode = "invalid"
	cfg, victim, defect := genInvalid(rng, 4)
	pristine := cloneCfg(cfg)
	total := 0
	for i, v := range cfg.Values {
		if i != victim {
			total += int(v.Repeat)
		}
	}
	horizon := total + 12
	extra := map[string]interface{}{"invalid_value_index": victim, "defect": defect, "horizon": horizon}
	r.Eval(1)
	mon, herr := newMonitor(cloneCfg(pristine).Values)
	if herr != nil {
		r.Inconclusive(herr.Error())
		return
	}
	mon.order[victim].invalid = defect
	q, _, pan := safeNew(false, cfg.Seed, cfg.Values, false)
	if pan != nil {
		r.Violation(mode, trial, "panic:new", fmt.Sprintf("queue.New panicked: %v", pan), witness(pristine, extra, nil))
		return
	}
	tr, mm := drive(q, horizon, mon)
	if mm == nil && tr.end != "error" {
		mm = &mismatch{"invalid-config-no-error", fmt.Sprintf("value #%d carries the documented-invalid configuration %q but the stream ended in %q after %d emissions without any error from Next", victim, defect, tr.end, len(tr.vals))}
	}
	flush(r, "invalid_mode_", mon)
	if mm != nil {
		r.Violation(mode, trial, mm.sig, mm.what, witness(pristine, extra, mon))
		return
	}
	r.Count("invalid_rejected_"+strings.SplitN(defect, "/", 2)[0], 1)
	r.SetAdd("invalid_defect_kind_pairs_rejected", defect)
	r.Count("invalid_rejected_total", 1)
	if mon.order[victim].count == 0 {
		r.Count("invalid_rejected_before_any_emission_of_the_value", 1)
	}
	b, _ := proto.MarshalOptions{Deterministic: true}.Marshal(pristine)
	r.Distinct(vlib.Hash(mode, b))
	if r.WantSample() && trial%97 == 0 {
		r.Sample(map[string]interface{}{"mode": mode, "trial": trial, "config": cfgText(pristine), "defect": defect, "invalid_value_index": victim, "emissions_before_error": len(tr.vals), "error": tr.err})
	}
}

func body(r *vlib.Run) {
	// Parallel mode wants real parallelism: half of the shards run it first, the
	// other half last, so that fewer processes compete for the cores meanwhile.
	par := func() {
		r.ForTrials("parallel", r.N(8, 64), func(trial int, rng *rand.Rand) { parallelTrial(r, trial, rng) })
	}
	if r.Shard%2 == 0 {
		par()
	}
	r.ForTrials("queue", r.N(3000, 150000), func(trial int, rng *rand.Rand) { queueTrial(r, trial, rng) })
	r.ForTrials("invalid", r.N(600, 30000), func(trial int, rng *rand.Rand) { invalidTrial(r, trial, rng) })
	r.ForTrials("fixed", r.N(300, 10000), func(trial int, rng *rand.Rand) { fixedTrial(r, trial, rng) })
	r.ForTrials("client", r.N(600, 30000), func(trial int, rng *rand.Rand) { clientTrial(r, trial, rng) })
	r.ForTrials("clientsyncvalue", r.N(200, 6000), func(trial int, rng *rand.Rand) { clientSyncValueTrial(r, trial, rng) })
	r.ForTrials("agent", r.N(50, 1000), func(trial int, rng *rand.Rand) { agentTrial(r, trial, rng) })
	if r.Shard%2 != 0 {
		par()
	}
}

func main() {
	vlib.Main(&vlib.Spec{
		ID: "C20",
		Rule: "seeded random fake-target configurations: 0-12 values with unique paths of every kind (int/uint/double/string/string-list/bool/delete/sync), constant / range / cumulative-range / random-list / cyclic-list distributions, timestamp deltas frozen / periodic / ranged / large, repeats 1..300 or unbounded (all-finite, mixed and all-unbounded regimes), per-value and global seeds (incl. negative and zero), magnitudes <= 2^61, half of them with the sync marker added through Add at Latest. " +
			"mode queue: UpdateQueue.Next driven to exhaustion (all-finite) or 200-1000 steps, every emission judged online (order, first emission, repeat, range/list/constant, timestamp delta, overdue/skipped values, sync placement, end state), then the sequence compared with a queue built from a deep clone and one built from the reused object (same non-zero seed). " +
			"mode invalid: one value with a documented-invalid setting (negative timestamp, delta_min>delta_max, negative delta, min>max, value outside range, value delta_min>delta_max, empty option list, no value) among valid finite ones: Next must return an error and never a generated value of that configuration. " +
			"mode fixed: FixedQueue / fixed generator deliver exactly the configured responses in order, sync once at the end. mode client: the real fake Client.Run on an in-memory stream; mode agent: the real fake Agent over loopback TCP gRPC — responses (minus the sync marker) must equal the queue's own sequence, sync exactly once and after every value's first emission. " +
			"mode parallel: 2-8 fake targets with different configurations (latest initial timestamps between 5 and 10^12) in one process at GOMAXPROCS 2/4/8/all/2x: fresh Clients started together behind a barrier, long-lived POLL Clients whose every Poll rebuilds the generator, and up to 3 real agents subscribed to together; every pass of every target is judged on its own by the same per-stream oracle. " +
			"A case is counted distinct non-trivial (hash of the deterministic serialisation of the configuration + mode) when at least two configured values were emitted and at least one generated (non-first) emission was judged against its delta bounds and range/list/constant [queue], the invalid value was rejected with an error [invalid], at least one response was compared [fixed/client/agent], every pass of a target was judged while targets with different latest timestamps ran concurrently [parallel, per target configuration].",
		Assumptions: []string{
			"a configured value is identified by its path (generated configurations use unique paths)",
			"range/list membership is demanded of generated values (second and later emissions); the first emission must carry the configured initial timestamp and value; a value without a distribution is a constant",
			"unbounded repeat is restated as bounded progress: within the observed horizon the stream never moves to a timestamp beyond last-emission + delta_max of a value that is still owed (the 'skipped' rule), and never reports exhaustion",
			"value magnitudes and timestamps stay below 2^62 (int64 overflow in the generator is outside the statement); doubles are finite and below 1e16; strings are valid UTF-8",
			"after the first error from Next the stream is considered ended (as the fake client does); what Next returns afterwards is only counted as a diagnostic",
			"the documented-invalid value has repeat 0 or >= 2: with repeat 1 the generator emits the configured value once and never generates (nor validates) anything",
			"parallel mode explores interleavings of concurrent targets by repetition (thousands of concurrent generator rebuilds per run), not by enumeration; a window that is never hit stays unexplored",
			"agent mode: listener, dial or transport failures and the 120 s watchdog are inconclusive, never violations",
		},
		QuickShards: 8, ThoroughShards: 16,
		MinDistinctQuick: 1500, MinDistinctThorough: 50000,
		Body: body,
	})
}
