package main

import (
	"fmt"
	"math"
	"strconv"
	"strings"

	fpb "github.com/openconfig/gnmi/testing/fake/proto"
)

type mismatch struct{ sig, what string }

func keyOf(path []string) string { return strings.Join(path, "\x1f") }

func kindOf(v *fpb.Value) string {
	switch v.GetValue().(type) {
	case *fpb.Value_IntValue:
		return "int"
	case *fpb.Value_UintValue:
		return "uint"
	case *fpb.Value_DoubleValue:
		return "double"
	case *fpb.Value_StringValue:
		return "string"
	case *fpb.Value_StringListValue:
		return "strlist"
	case *fpb.Value_BoolValue:
		return "bool"
	case *fpb.Value_Delete:
		return "delete"
	case *fpb.Value_Sync:
		return "sync"
	}
	return "none"
}

// concrete renders the concrete value carried by v canonically.
func concrete(v *fpb.Value) string {
	switch x := v.GetValue().(type) {
	case *fpb.Value_IntValue:
		return strconv.FormatInt(x.IntValue.GetValue(), 10)
	case *fpb.Value_UintValue:
		return strconv.FormatUint(x.UintValue.GetValue(), 10)
	case *fpb.Value_DoubleValue:
		return strconv.FormatFloat(x.DoubleValue.GetValue(), 'g', -1, 64)
	case *fpb.Value_StringValue:
		return strconv.Quote(x.StringValue.GetValue())
	case *fpb.Value_StringListValue:
		return fmt.Sprintf("%q", append([]string{}, x.StringListValue.GetValue()...))
	case *fpb.Value_BoolValue:
		return strconv.FormatBool(x.BoolValue.GetValue())
	case *fpb.Value_Delete:
		return "delete"
	case *fpb.Value_Sync:
		return "sync:" + strconv.FormatUint(x.Sync, 10)
	}
	return "<none>"
}

func short(v *fpb.Value) string {
	return fmt.Sprintf("%s@%d=%s(r%d)", strings.Join(v.GetPath(), "/"), v.GetTimestamp().GetTimestamp(), concrete(v), v.GetRepeat())
}

// vspec is what the property statement says about one configured value,
// read from a pristine clone of the configuration (never from emitted values).
type vspec struct {
	idx        int
	key        string
	cfg        *fpb.Value
	kind       string
	repeat     int32
	ts0        int64
	dmin, dmax int64
	invalid    string // defect name for the deliberately invalid value
	injected   bool   // the sync marker added through Add/Latest
}

type vstate struct {
	*vspec
	count  int
	lastTS int64
	last   *fpb.Value
}

func (s *vstate) live() bool { return s.repeat <= 0 || s.count < int(s.repeat) }

type monitor struct {
	vals   map[string]*vstate
	order  []*vstate
	n      int
	lastTS int64
	stat   map[string]int64
	tail   []string
	// summary for the non-triviality rule
	judgedGenerated int
	emittedValues   int
}

func newMonitor(pristine []*fpb.Value) (*monitor, error) {
	m := &monitor{vals: map[string]*vstate{}, stat: map[string]int64{}}
	for i, v := range pristine {
		sp := &vspec{idx: i, key: keyOf(v.GetPath()), cfg: v, kind: kindOf(v), repeat: v.GetRepeat(),
			ts0: v.GetTimestamp().GetTimestamp(), dmin: v.GetTimestamp().GetDeltaMin(), dmax: v.GetTimestamp().GetDeltaMax()}
		if _, dup := m.vals[sp.key]; dup {
			return nil, fmt.Errorf("harness: duplicate path %q", v.GetPath())
		}
		st := &vstate{vspec: sp}
		m.vals[sp.key] = st
		m.order = append(m.order, st)
	}
	return m, nil
}

func (m *monitor) addInjectedSync(sv *fpb.Value) {
	sp := &vspec{idx: len(m.order), key: keyOf(sv.GetPath()), cfg: sv, kind: "sync", repeat: 1, ts0: sv.GetTimestamp().GetTimestamp(), injected: true}
	st := &vstate{vspec: sp}
	m.vals[sp.key] = st
	m.order = append(m.order, st)
}

func (m *monitor) c(name string) { m.stat[name]++ }

func inStrs(s string, opts []string) bool {
	for _, o := range opts {
		if o == s {
			return true
		}
	}
	return false
}

// member judges a generated (second or later) emission against the configured
// range / option list / constant.
func (m *monitor) member(st *vstate, v *fpb.Value) *mismatch {
	bad := func(sig, f string, a ...interface{}) *mismatch {
		return &mismatch{sig, fmt.Sprintf("emission %d of value #%d (%s, %s): ", st.count, st.idx, strings.Join(st.cfg.GetPath(), "/"), st.kind) + fmt.Sprintf(f, a...)}
	}
	konst := func() *mismatch {
		m.c("judged_constant")
		if concrete(v) != concrete(st.cfg) {
			return bad("constant", "constant value changed from %s to %s", concrete(st.cfg), concrete(v))
		}
		return nil
	}
	switch st.kind {
	case "int":
		x := v.GetIntValue().GetValue()
		c := st.cfg.GetIntValue()
		switch d := c.GetDistribution().(type) {
		case *fpb.IntValue_Range:
			m.c("judged_range")
			if x < d.Range.Minimum || x > d.Range.Maximum {
				return bad("range", "%d outside [%d, %d]", x, d.Range.Minimum, d.Range.Maximum)
			}
			if x == d.Range.Minimum || x == d.Range.Maximum {
				m.c("range_at_boundary")
			}
			if (d.Range.DeltaMin != 0 || d.Range.DeltaMax != 0) && st.last != nil {
				m.c("diag_cumulative_steps")
				old := st.last.GetIntValue().GetValue()
				lo, hi := clampI(old+d.Range.DeltaMin, d.Range.Minimum, d.Range.Maximum), clampI(old+d.Range.DeltaMax, d.Range.Minimum, d.Range.Maximum)
				if x < lo || x > hi {
					if mm := m.valueStep(bad, fmt.Sprint(old), fmt.Sprint(x), fmt.Sprint(lo), fmt.Sprint(hi)); mm != nil {
						return mm
					}
				}
			}
		case *fpb.IntValue_List:
			m.c("judged_list")
			ok := false
			for _, o := range d.List.GetOptions() {
				ok = ok || o == x
			}
			if !ok {
				return bad("list-member", "%d is not one of the options %v", x, d.List.GetOptions())
			}
		default:
			return konst()
		}
	case "uint":
		x := v.GetUintValue().GetValue()
		c := st.cfg.GetUintValue()
		switch d := c.GetDistribution().(type) {
		case *fpb.UintValue_Range:
			m.c("judged_range")
			if x < d.Range.Minimum || x > d.Range.Maximum {
				return bad("range", "%d outside [%d, %d]", x, d.Range.Minimum, d.Range.Maximum)
			}
			if x == d.Range.Minimum || x == d.Range.Maximum {
				m.c("range_at_boundary")
			}
			if (d.Range.DeltaMin != 0 || d.Range.DeltaMax != 0) && st.last != nil {
				m.c("diag_cumulative_steps")
				old := int64(st.last.GetUintValue().GetValue())
				mn, mx := int64(d.Range.Minimum), int64(d.Range.Maximum)
				lo, hi := clampI(old+d.Range.DeltaMin, mn, mx), clampI(old+d.Range.DeltaMax, mn, mx)
				if int64(x) < lo || int64(x) > hi {
					if mm := m.valueStep(bad, fmt.Sprint(old), fmt.Sprint(x), fmt.Sprint(lo), fmt.Sprint(hi)); mm != nil {
						return mm
					}
				}
			}
		case *fpb.UintValue_List:
			m.c("judged_list")
			ok := false
			for _, o := range d.List.GetOptions() {
				ok = ok || o == x
			}
			if !ok {
				return bad("list-member", "%d is not one of the options %v", x, d.List.GetOptions())
			}
		default:
			return konst()
		}
	case "double":
		x := v.GetDoubleValue().GetValue()
		c := st.cfg.GetDoubleValue()
		switch d := c.GetDistribution().(type) {
		case *fpb.DoubleValue_Range:
			m.c("judged_range")
			if !(x >= d.Range.Minimum && x <= d.Range.Maximum) {
				return bad("range", "%v outside [%v, %v]", x, d.Range.Minimum, d.Range.Maximum)
			}
			if x == d.Range.Minimum || x == d.Range.Maximum {
				m.c("range_at_boundary")
			}
			if (d.Range.DeltaMin != 0 || d.Range.DeltaMax != 0) && st.last != nil {
				m.c("diag_cumulative_steps")
				old := st.last.GetDoubleValue().GetValue()
				tol := 1e-9 * (math.Abs(old) + math.Abs(d.Range.DeltaMin) + math.Abs(d.Range.DeltaMax) + 1)
				lo, hi := clampF(old+d.Range.DeltaMin, d.Range.Minimum, d.Range.Maximum), clampF(old+d.Range.DeltaMax, d.Range.Minimum, d.Range.Maximum)
				if x < lo-tol || x > hi+tol {
					if mm := m.valueStep(bad, fmt.Sprint(old), fmt.Sprint(x), fmt.Sprint(lo), fmt.Sprint(hi)); mm != nil {
						return mm
					}
				}
			}
		case *fpb.DoubleValue_List:
			m.c("judged_list")
			ok := false
			for _, o := range d.List.GetOptions() {
				ok = ok || o == x
			}
			if !ok {
				return bad("list-member", "%v is not one of the options %v", x, d.List.GetOptions())
			}
		default:
			return konst()
		}
	case "string":
		c := st.cfg.GetStringValue()
		if l := c.GetList(); l != nil {
			m.c("judged_list")
			if !inStrs(v.GetStringValue().GetValue(), l.GetOptions()) {
				return bad("list-member", "%q is not one of the options %q", v.GetStringValue().GetValue(), l.GetOptions())
			}
		} else {
			return konst()
		}
	case "strlist":
		c := st.cfg.GetStringListValue()
		if l := c.GetList(); l != nil {
			m.c("judged_list")
			for _, e := range v.GetStringListValue().GetValue() {
				m.c("judged_strlist_elements")
				if !inStrs(e, l.GetOptions()) {
					return bad("list-member", "element %q of %q is not one of the options %q", e, v.GetStringListValue().GetValue(), l.GetOptions())
				}
			}
		} else {
			return konst()
		}
	case "bool":
		c := st.cfg.GetBoolValue()
		if l := c.GetList(); l != nil {
			m.c("judged_list")
			ok := false
			for _, o := range l.GetOptions() {
				ok = ok || o == v.GetBoolValue().GetValue()
			}
			if !ok {
				return bad("list-member", "%v is not one of the options %v", v.GetBoolValue().GetValue(), l.GetOptions())
			}
		} else {
			return konst()
		}
	case "sync":
		return konst()
	case "delete":
		m.c("judged_delete")
	}
	return nil
}

// valueDeltaDeciding: fake.proto documents cumulative ranges ("subsequent value
// is value + delta ... values will saturate at the boundaries"), but the
// property statement only bounds generated values by their range and
// timestamp steps by their deltas. A generated value whose step from the
// previous one is outside clamp(old + [delta_min, delta_max]) is therefore
// only counted (evidence counter diag_value_step_outside_documented_delta)
// unless this switch is turned on.
const valueDeltaDeciding = false

func (m *monitor) valueStep(bad func(sig, f string, a ...interface{}) *mismatch, old, x, lo, hi string) *mismatch {
	m.c("diag_value_step_outside_documented_delta")
	if valueDeltaDeciding {
		return bad("value-delta", "cumulative range: value moved from %s to %s, documented reachable interval [%s, %s]", old, x, lo, hi)
	}
	return nil
}

func clampI(x, lo, hi int64) int64 {
	if x < lo {
		return lo
	}
	if x > hi {
		return hi
	}
	return x
}

func clampF(x, lo, hi float64) float64 {
	if x < lo {
		return lo
	}
	if x > hi {
		return hi
	}
	return x
}

// observe judges one emitted value online.
func (m *monitor) observe(v *fpb.Value) *mismatch {
	ts := v.GetTimestamp().GetTimestamp()
	m.tail = append(m.tail, short(v))
	if len(m.tail) > 12 {
		m.tail = m.tail[1:]
	}
	if m.n > 0 {
		if ts < m.lastTS {
			return &mismatch{"order", fmt.Sprintf("emission %d (%s) has timestamp %d after an emission with timestamp %d", m.n, short(v), ts, m.lastTS)}
		}
		if ts == m.lastTS {
			m.c("order_steps_equal_ts")
		} else {
			m.c("order_steps_greater_ts")
		}
	}
	st := m.vals[keyOf(v.GetPath())]
	if st == nil {
		return &mismatch{"unknown-value", fmt.Sprintf("emission %d (%s) does not belong to any configured value", m.n, short(v))}
	}
	st.count++
	m.c("emissions")
	if k := kindOf(v); k != st.kind {
		return &mismatch{"kind-changed", fmt.Sprintf("emission %d (%s): kind %s, configured kind %s", m.n, short(v), k, st.kind)}
	}
	if st.repeat > 0 && st.count > int(st.repeat) {
		return &mismatch{"repeat-exceeded", fmt.Sprintf("value #%d (%s) configured with repeat %d was emitted a %d-th time (%s)", st.idx, strings.Join(st.cfg.GetPath(), "/"), st.repeat, st.count, short(v))}
	}
	switch {
	case st.invalid != "":
		if st.count >= 2 {
			return &mismatch{"invalid-config-generated", fmt.Sprintf("value #%d carries the documented-invalid configuration %q, yet a generated value was emitted instead of an error: %s", st.idx, st.invalid, short(v))}
		}
	case st.count == 1:
		m.c("first_emissions")
		if ts != st.ts0 || concrete(v) != concrete(st.cfg) {
			return &mismatch{"first-emission", fmt.Sprintf("first emission of value #%d is %s, configured initial timestamp %d and value %s", st.idx, short(v), st.ts0, concrete(st.cfg))}
		}
		if st.injected {
			m.c("sync_marker_judged")
			for _, w := range m.order {
				if !w.injected && w.count == 0 {
					return &mismatch{"sync-early", fmt.Sprintf("sync marker emitted as emission %d before the first emission of value #%d (%s, initial timestamp %d)", m.n, w.idx, strings.Join(w.cfg.GetPath(), "/"), w.ts0)}
				}
			}
		} else {
			m.emittedValues++
		}
	default:
		step := ts - st.lastTS
		m.c("delta_steps_judged")
		if st.dmax > st.dmin {
			m.c("delta_steps_judged_ranged")
		}
		if step < st.dmin || step > st.dmax {
			return &mismatch{"delta", fmt.Sprintf("value #%d (%s): timestamp step %d (from %d to %d) outside [delta_min %d, delta_max %d]", st.idx, strings.Join(st.cfg.GetPath(), "/"), step, st.lastTS, ts, st.dmin, st.dmax)}
		}
		if mm := m.member(st, v); mm != nil {
			return mm
		}
		m.judgedGenerated++
	}
	st.lastTS = ts
	st.last = v
	// A value still owed to the stream whose next emission can be no later than
	// due must come before anything with a greater timestamp (ordering) — so a
	// stream that moved past it has dropped it (or will violate the order).
	if m.n == 0 || ts > m.lastTS {
		for _, w := range m.order {
			if !w.live() || (w.invalid != "" && w.count > 0) {
				continue
			}
			due := w.ts0
			if w.count > 0 {
				due = w.lastTS + w.dmax
			}
			if due < ts {
				m.lastTS = ts
				m.n++
				return &mismatch{"skipped", fmt.Sprintf("value #%d (%s, repeat %d, emitted %d times so far) was due no later than timestamp %d but the stream moved on to %d (%s) without it", w.idx, strings.Join(w.cfg.GetPath(), "/"), w.repeat, w.count, due, ts, short(v))}
			}
		}
		m.c("overdue_scans")
	}
	m.lastTS = ts
	m.n++
	return nil
}

// finish judges the end state: "exhausted" (Next returned nil), "horizon".
func (m *monitor) finish(end string) *mismatch {
	for _, w := range m.order {
		if w.invalid != "" {
			continue
		}
		switch end {
		case "exhausted":
			if w.repeat <= 0 {
				return &mismatch{"unbounded-dropped", fmt.Sprintf("the queue reported exhaustion although value #%d (%s) has an unbounded repeat (emitted %d times)", w.idx, strings.Join(w.cfg.GetPath(), "/"), w.count)}
			}
			if w.count != int(w.repeat) {
				sig := "repeat-short"
				if w.injected {
					sig = "sync-missing"
				}
				return &mismatch{sig, fmt.Sprintf("at exhaustion value #%d (%s, kind %s) had been emitted %d times, configured repeat %d", w.idx, strings.Join(w.cfg.GetPath(), "/"), w.kind, w.count, w.repeat)}
			}
			m.c("finite_values_exact_repeat")
		case "horizon":
			if w.repeat <= 0 && w.count >= 2 {
				m.c("unbounded_values_reappearing")
			}
			if w.repeat <= 0 && w.count == 0 {
				m.c("unbounded_values_legitimately_starved")
			}
		}
	}
	return nil
}
