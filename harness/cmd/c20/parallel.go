package main

import (
	"context"
	"fmt"
	"math/rand"
	"net"
	"runtime"
	"sync"
	"sync/atomic"
	"time"

	"google.golang.org/grpc"
	"google.golang.org/grpc/credentials/insecure"
	"google.golang.org/protobuf/proto"

	gpb "github.com/openconfig/gnmi/proto/gnmi"
	fgnmi "github.com/openconfig/gnmi/testing/fake/gnmi"
	fpb "github.com/openconfig/gnmi/testing/fake/proto"

	"verif/internal/vlib"
)

// Parallel mode: several fake targets with DIFFERENT configurations (latest
// initial timestamps orders of magnitude apart) live in one process and are
// (re)subscribed to at the same time, as in a collector test with many fake
// targets. Each target's stream is judged on its own by the per-stream oracle
// (judgeResponses): whatever the other targets do, it must equal that
// configuration's own queue sequence with the sync marker once, after the
// first emission of every configured value.

var parOffsets = []int64{1_000_000, 0, 1_000_000_000, 10, 1_000, 1_000_000_000_000, 100, 5}

type parTarget struct {
	cfg, pristine *fpb.Config
	exp           *trace
	per           int // responses per complete pass over the configuration
	latest        int64
}

func genParTarget(rng *rand.Rand, i int) (*parTarget, *mismatch) {
	for {
		cfg := genConfig(rng, cfgOpts{forceFinite: true, maxVals: 3, nonZeroSeed: true})
		if len(cfg.Values) < 2 {
			continue
		}
		cfg.Target = fmt.Sprintf("c20-par-%d", i)
		cfg.DisableSync = rng.Intn(10) == 0
		off := parOffsets[i%len(parOffsets)]
		var latest int64
		for _, v := range cfg.Values {
			v.Repeat = int32(1 + rng.Intn(2))
			if v.Timestamp == nil {
				v.Timestamp = &fpb.Timestamp{}
			}
			// small spread on top of a per-target offset
			v.Timestamp.Timestamp = off + v.Timestamp.Timestamp%1000 + int64(rng.Intn(50))
			if v.Timestamp.Timestamp > latest {
				latest = v.Timestamp.Timestamp
			}
		}
		t := &parTarget{cfg: cfg, pristine: cloneCfg(cfg), latest: latest}
		_, total := allFinite(cfg)
		exp, mm := expectedTrace(t.pristine, total+2)
		if mm != nil {
			return nil, mm
		}
		if exp.end != "exhausted" {
			continue
		}
		t.exp = exp
		t.per = len(exp.vals)
		if !cfg.DisableSync {
			t.per++
		}
		return t, nil
	}
}

type parResult struct {
	mm     *mismatch
	inc    string
	target int
	phase  string
	round  int
	judged int
}

const pollSpacing = 150 * time.Microsecond

var pollReq = &gpb.SubscribeRequest{Request: &gpb.SubscribeRequest_Poll{Poll: &gpb.Poll{}}}

// pollTarget runs one real fake Client in POLL mode: the subscription and
// every Poll rebuild the generator (Client.reset) and replay the whole
// configuration, so rounds+1 complete passes are judged.
func pollTarget(r *vlib.Run, t *parTarget, idx, rounds int, gate <-chan struct{}) (res parResult) {
	res.target, res.phase = idx, "poll"
	st := vlib.NewStream(context.Background(), "c20")
	defer st.Cancel()
	c := fgnmi.NewClient(t.cfg)
	st.Push(&gpb.SubscribeRequest{Request: &gpb.SubscribeRequest_Subscribe{Subscribe: &gpb.SubscriptionList{Mode: gpb.SubscriptionList_POLL}}})
	wctx, wcancel := context.WithTimeout(context.Background(), 180*time.Second)
	defer wcancel()
	type runRes struct {
		err error
		pan interface{}
	}
	done := make(chan runRes, 1)
	<-gate
	go func() {
		var x runRes
		defer func() {
			if p := recover(); p != nil {
				x.pan = p
			}
			done <- x
			wcancel()
		}()
		x.err = c.Run(st)
	}()
	finish := func() {
		// End the POLL session: cancel, then one Poll to release the sender.
		// Close can block for ever if the client has deadlocked (see below), so
		// it runs on its own goroutine.
		go func() {
			c.Close()
			st.Push(pollReq)
		}()
		select {
		case <-done:
		case <-time.After(10 * time.Second):
		}
		st.CloseSend()
	}
	base := 0
	for round := 0; round <= rounds; round++ {
		res.round = round
		if round > 0 {
			// Client.reset (recv goroutine: mu then qMu) and Client.nextInQueue
			// (send goroutine: qMu then mu.RLock) take the two locks in opposite
			// orders, so a Poll that arrives while the sender is still looking at
			// the drained queue deadlocks the real client. That is a liveness
			// defect of the fake's POLL mode outside C20's statement; the harness
			// stays out of the window by letting the sender park first, and treats
			// a stalled pass as inconclusive.
			time.Sleep(pollSpacing)
			st.Push(pollReq)
		}
		var pass []*gpb.SubscribeResponse
		pctx, pcancel := context.WithTimeout(wctx, 20*time.Second)
		ok := st.WaitSent(pctx, func(sent []*gpb.SubscribeResponse) bool {
			if len(sent) >= base+t.per {
				pass = append(pass, sent[base:base+t.per]...)
				return true
			}
			return false
		})
		pcancel()
		if !ok {
			select {
			case x := <-done:
				if x.pan != nil {
					res.mm = &mismatch{"panic:client", fmt.Sprintf("Client.Run panicked: %v", x.pan)}
				} else {
					res.mm = &mismatch{"truncated", fmt.Sprintf("Client.Run returned (%v) in POLL mode during pass %d, %d of %d responses of the pass sent", x.err, round, st.NSent()-base, t.per)}
				}
				st.CloseSend()
				return
			default:
			}
			res.inc = fmt.Sprintf("parallel poll: no complete pass within 20 s (%d of %d responses) - fake client stalled in POLL mode (reset/nextInQueue lock order), target abandoned", st.NSent()-base, t.per)
			finish()
			return
		}
		base += t.per
		if mm := judgeResponses(r, "parallel_poll_", pass, t.exp, t.pristine, true); mm != nil {
			res.mm = mm
			finish()
			return
		}
		res.judged++
	}
	finish()
	return
}

func parallelTrial(r *vlib.Run, trial int, rng *rand.Rand) {
	const mode = "parallel"
	r.Eval(1)
	k := 2 + rng.Intn(7)
	procs := []int{2, 4, 8, runtime.NumCPU(), runtime.NumCPU(), 2 * runtime.NumCPU()}[rng.Intn(6)]
	old := runtime.GOMAXPROCS(procs)
	defer runtime.GOMAXPROCS(old)
	freshRounds, pollRounds, agentRounds := r.N(3000, 5000), r.N(150, 300), r.N(15, 25)
	targets := make([]*parTarget, k)
	cfgs := []string{}
	latests := map[int64]bool{}
	for i := range targets {
		t, mm := genParTarget(rng, i)
		if mm != nil {
			r.Violation(mode, trial, mm.sig, mm.what, nil)
			return
		}
		targets[i] = t
		cfgs = append(cfgs, cfgText(t.pristine))
		latests[t.latest] = true
	}
	wit := func(res parResult) map[string]interface{} {
		return map[string]interface{}{"targets": k, "gomaxprocs": procs, "phase": res.phase, "failing_target": res.target, "pass_or_round": res.round,
			"failing_config": cfgs[res.target], "all_configs": cfgs, "note": "concurrent: the violation depends on the interleaving of several targets' resets; replay re-runs the same workload"}
	}
	report := func(res parResult) bool {
		if res.mm != nil {
			r.Violation(mode, trial, res.mm.sig, fmt.Sprintf("%d fake targets in parallel (GOMAXPROCS %d), %s phase, target %d (latest initial timestamp %d), pass %d: %s", k, procs, res.phase, res.target, targets[res.target].latest, res.round, res.mm.what), wit(res))
			return true
		}
		if res.inc != "" {
			r.Inconclusive(res.inc)
		}
		return false
	}
	failed := false

	// Phase A: fresh clients (STREAM). All targets start together behind a
	// barrier and then free-run: every subscription builds a new generator.
	{
		gate := make(chan struct{})
		out := make([]parResult, k)
		var stop atomic.Bool
		var wg, ready sync.WaitGroup
		for i := range targets {
			wg.Add(1)
			ready.Add(1)
			go func(i int) {
				defer wg.Done()
				t := targets[i]
				res := parResult{target: i, phase: "fresh-client"}
				ready.Done()
				<-gate
				for round := 0; round < freshRounds && !stop.Load(); round++ {
					res.round = round
					resps, ended, mm, inc := runClient(t.cfg, t.per+5)
					if mm == nil && inc == "" {
						mm = judgeResponses(r, "parallel_fresh_", resps, t.exp, t.pristine, ended)
						res.judged++
					}
					if mm != nil || inc != "" {
						res.mm, res.inc = mm, inc
						stop.Store(true)
						break
					}
				}
				out[i] = res
			}(i)
		}
		ready.Wait()
		close(gate)
		wg.Wait()
		for _, res := range out {
			r.Count("parallel_resets_judged", int64(res.judged))
			r.Count("parallel_fresh_subscriptions_judged", int64(res.judged))
			if !failed && report(res) {
				failed = true
			}
		}
	}
	if failed {
		return
	}

	// Phase B: long-lived POLL clients, free-running: every Poll is a reset.
	{
		gate := make(chan struct{})
		out := make([]parResult, k)
		var wg sync.WaitGroup
		for i := range targets {
			wg.Add(1)
			go func(i int) {
				defer wg.Done()
				out[i] = pollTarget(r, targets[i], i, pollRounds, gate)
			}(i)
		}
		close(gate)
		wg.Wait()
		for _, res := range out {
			r.Count("parallel_resets_judged", int64(res.judged))
			r.Count("parallel_poll_passes_judged", int64(res.judged))
			if !failed && report(res) {
				failed = true
			}
		}
	}
	if failed {
		return
	}

	// Phase C: a few real agents (loopback gRPC), subscribed to together.
	na := k
	if na > 3 {
		na = 3
	}
	type agentConn struct {
		a    *fgnmi.Agent
		conn *grpc.ClientConn
		cl   gpb.GNMIClient
	}
	var acs []*agentConn
	defer func() {
		for _, ac := range acs {
			ac.conn.Close()
			ac.a.Close()
		}
	}()
	for i := 0; i < na; i++ {
		a, err := fgnmi.New(targets[i].cfg, nil)
		if err != nil {
			r.Inconclusive("parallel agent: cannot start: " + err.Error())
			return
		}
		_, port, _ := net.SplitHostPort(a.Address())
		conn, err := grpc.NewClient("passthrough:///127.0.0.1:"+port, grpc.WithTransportCredentials(insecure.NewCredentials()))
		if err != nil {
			a.Close()
			r.Inconclusive("parallel agent: dial: " + err.Error())
			return
		}
		acs = append(acs, &agentConn{a, conn, gpb.NewGNMIClient(conn)})
	}
	for round := 0; round < agentRounds && !failed; round++ {
		gate := make(chan struct{})
		out := make([]parResult, na)
		var wg sync.WaitGroup
		for i := 0; i < na; i++ {
			wg.Add(1)
			go func(i int) {
				defer wg.Done()
				t := targets[i]
				<-gate
				ctx, cancel := context.WithTimeout(context.Background(), 120*time.Second)
				defer cancel()
				resps, ended, inc := subscribeOnce(ctx, acs[i].cl, t.per+5)
				res := parResult{target: i, phase: "agent", round: round}
				if inc != "" {
					res.inc = "parallel agent: " + inc
				} else {
					res.mm = judgeResponses(r, "parallel_agent_", resps, t.exp, t.pristine, ended)
					res.judged = 1
				}
				out[i] = res
			}(i)
		}
		close(gate)
		wg.Wait()
		for _, res := range out {
			r.Count("parallel_resets_judged", int64(res.judged))
			r.Count("parallel_agent_subscriptions_judged", int64(res.judged))
			if report(res) {
				failed = true
				break
			}
		}
	}
	if failed {
		return
	}
	r.Count(fmt.Sprintf("parallel_trials_gomaxprocs_%d", procs), 1)
	r.Count(fmt.Sprintf("parallel_trials_targets_%d", k), 1)
	if len(latests) >= 2 {
		for _, t := range targets {
			b, _ := proto.MarshalOptions{Deterministic: true}.Marshal(t.pristine)
			r.Distinct(vlib.Hash(mode, b))
		}
	}
	if r.WantSample() {
		ls := []int64{}
		for _, t := range targets {
			ls = append(ls, t.latest)
		}
		r.Sample(map[string]interface{}{"mode": mode, "trial": trial, "targets": k, "gomaxprocs": procs, "latest_initial_timestamps": ls, "first_config": cfgs[0]})
	}
}
