module verif

go 1.22.0

require (
	github.com/anishathalye/porcupine v1.3.0
	github.com/openconfig/gnmi v0.99.0
)

replace github.com/openconfig/gnmi => /repo

require (
	bitbucket.org/creachadair/stringset v0.0.14
	github.com/cenkalti/backoff/v4 v4.3.0
	github.com/golang/glog v1.2.4
	github.com/google/go-cmp v0.6.0
	github.com/kylelemons/godebug v1.1.0
	github.com/openconfig/grpctunnel v0.1.0
	github.com/openconfig/ygot v0.29.20
	github.com/protocolbuffers/txtpbfmt v0.0.0-20240823084532-8e6b51fa9bef
	golang.org/x/crypto v0.32.0
	golang.org/x/net v0.34.0
	google.golang.org/grpc v1.69.2
	google.golang.org/grpc/cmd/protoc-gen-go-grpc v1.5.1
	google.golang.org/protobuf v1.36.2
)
require (
	github.com/mitchellh/go-wordwrap v1.0.1 // indirect
	github.com/openconfig/goyang v1.6.0 // indirect
	golang.org/x/exp v0.0.0-20241009180824-f66d83c29e7c // indirect
	golang.org/x/sys v0.29.0 // indirect
	golang.org/x/term v0.28.0 // indirect
	golang.org/x/text v0.21.0 // indirect
	google.golang.org/genproto/googleapis/rpc v0.0.0-20250106144421-5f5ef82da422 // indirect
)
