// Package gen holds small shared generators for gNMI messages.
package gen

import (
	"math"
	"math/rand"

	pb "github.com/openconfig/gnmi/proto/gnmi"
)

// Elems builds PathElems without keys.
func Elems(names ...string) []*pb.PathElem {
	out := make([]*pb.PathElem, 0, len(names))
	for _, n := range names {
		out = append(out, &pb.PathElem{Name: n})
	}
	return out
}

// Path builds a path in the elem encoding (deprecated=false) or the
// deprecated element encoding.
func Path(deprecated bool, names ...string) *pb.Path {
	if deprecated {
		return &pb.Path{Element: append([]string{}, names...)}
	}
	return &pb.Path{Elem: Elems(names...)}
}

// S, I, U, B, D, F build TypedValues.
func S(s string) *pb.TypedValue { return &pb.TypedValue{Value: &pb.TypedValue_StringVal{StringVal: s}} }
func I(i int64) *pb.TypedValue  { return &pb.TypedValue{Value: &pb.TypedValue_IntVal{IntVal: i}} }
func U(u uint64) *pb.TypedValue { return &pb.TypedValue{Value: &pb.TypedValue_UintVal{UintVal: u}} }
func B(b bool) *pb.TypedValue   { return &pb.TypedValue{Value: &pb.TypedValue_BoolVal{BoolVal: b}} }
func D(d float64) *pb.TypedValue {
	return &pb.TypedValue{Value: &pb.TypedValue_DoubleVal{DoubleVal: d}}
}
func F(f float32) *pb.TypedValue {
	return &pb.TypedValue{Value: &pb.TypedValue_FloatVal{FloatVal: f}}
}
func Bytes(b []byte) *pb.TypedValue {
	return &pb.TypedValue{Value: &pb.TypedValue_BytesVal{BytesVal: b}}
}
func LL(vs ...*pb.TypedValue) *pb.TypedValue {
	return &pb.TypedValue{Value: &pb.TypedValue_LeaflistVal{LeaflistVal: &pb.ScalarArray{Element: vs}}}
}

// Value draws a TypedValue from every scalar arm.
func Value(rng *rand.Rand) *pb.TypedValue {
	switch rng.Intn(10) {
	case 0:
		return S([]string{"", "x", "y", "up", "down", "héllo/wörld"}[rng.Intn(6)])
	case 1:
		return I([]int64{0, 1, -1, 42, math.MaxInt64, math.MinInt64}[rng.Intn(6)])
	case 2:
		return U([]uint64{0, 1, 42, math.MaxUint64}[rng.Intn(4)])
	case 3:
		return B(rng.Intn(2) == 0)
	case 4:
		return D([]float64{0, 1.5, -2.25, math.Inf(1), 1e300}[rng.Intn(5)])
	case 5:
		return F([]float32{0, 1.5, -2.25}[rng.Intn(3)])
	case 6:
		return Bytes([]byte{byte(rng.Intn(3))})
	case 7:
		return LL(S("a"), S([]string{"b", "c"}[rng.Intn(2)]))
	case 8:
		return &pb.TypedValue{Value: &pb.TypedValue_DecimalVal{DecimalVal: &pb.Decimal64{Digits: int64(rng.Intn(3)), Precision: 1}}}
	default:
		return &pb.TypedValue{Value: &pb.TypedValue_JsonVal{JsonVal: []byte(`{"a":1}`)}}
	}
}

// Update builds a single-update notification.
func Update(target, origin string, ts int64, prefix, path *pb.Path, v *pb.TypedValue) *pb.Notification {
	pre := &pb.Path{Target: target, Origin: origin}
	if prefix != nil {
		pre.Elem, pre.Element = prefix.Elem, prefix.Element
	}
	return &pb.Notification{Timestamp: ts, Prefix: pre, Update: []*pb.Update{{Path: path, Val: v}}}
}

// Delete builds a single-delete notification.
func Delete(target, origin string, ts int64, prefix, path *pb.Path) *pb.Notification {
	pre := &pb.Path{Target: target, Origin: origin}
	if prefix != nil {
		pre.Elem, pre.Element = prefix.Elem, prefix.Element
	}
	return &pb.Notification{Timestamp: ts, Prefix: pre, Delete: []*pb.Path{path}}
}
