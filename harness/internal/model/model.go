// Package model holds the small executable reference models the oracles
// compare the real code with. They are written from the property statements
// and the documented API, not from the implementation's control flow.
package model

import (
	"sort"
	"strconv"
	"strings"

	pb "github.com/openconfig/gnmi/proto/gnmi"
)

// Key encodes a path unambiguously as a map key.
func Key(p []string) string {
	var b strings.Builder
	for _, e := range p {
		b.WriteString(strconv.Itoa(len(e)))
		b.WriteByte(':')
		b.WriteString(e)
	}
	return b.String()
}

// Unkey decodes Key.
func Unkey(k string) []string {
	p := []string{}
	for len(k) > 0 {
		i := strings.IndexByte(k, ':')
		n, _ := strconv.Atoi(k[:i])
		p = append(p, k[i+1:i+1+n])
		k = k[i+1+n:]
	}
	return p
}

// Less orders paths lexicographically by their element lists.
func Less(a, b []string) bool {
	for i := 0; i < len(a) && i < len(b); i++ {
		if a[i] != b[i] {
			return a[i] < b[i]
		}
	}
	return len(a) < len(b)
}

// MatchQ: does (wildcard) query q select stored leaf path k?
func MatchQ(q, k []string) bool {
	for i := 0; i < len(q) && i < len(k); i++ {
		if q[i] != "*" && q[i] != k[i] {
			return false
		}
	}
	// One trailing glob may run past a leaf.
	return len(q) <= len(k) || (len(q) == len(k)+1 && q[len(q)-1] == "*")
}

// Compat: is an update/delete at path p offered to a subscription path q?
func Compat(q, p []string) bool {
	for i := 0; i < len(q) && i < len(p); i++ {
		if q[i] != p[i] && q[i] != "*" && p[i] != "*" {
			return false
		}
	}
	return true
}

// IsProperPrefix reports whether a is a proper prefix of b.
func IsProperPrefix(a, b []string) bool {
	if len(a) >= len(b) {
		return false
	}
	for i := range a {
		if a[i] != b[i] {
			return false
		}
	}
	return true
}

// Tree is the prefix-free map model of ctree.Tree.
type Tree struct {
	M map[string]interface{}
}

// NewTree returns an empty model tree.
func NewTree() *Tree { return &Tree{M: map[string]interface{}{}} }

// Clone copies the model.
func (t *Tree) Clone() *Tree {
	c := NewTree()
	for k, v := range t.M {
		c.M[k] = v
	}
	return c
}

// CanAdd: no proper prefix of p is a key and p is not a proper prefix of a key.
func (t *Tree) CanAdd(p []string) bool {
	for k := range t.M {
		kp := Unkey(k)
		if IsProperPrefix(kp, p) || IsProperPrefix(p, kp) {
			return false
		}
	}
	return true
}

// Add stores v at p if allowed and reports whether it did.
func (t *Tree) Add(p []string, v interface{}) bool {
	if !t.CanAdd(p) {
		return false
	}
	t.M[Key(p)] = v
	return true
}

// Query returns the keys selected by q, sorted.
func (t *Tree) Query(q []string) [][]string {
	var out [][]string
	for k := range t.M {
		kp := Unkey(k)
		if MatchQ(q, kp) {
			out = append(out, kp)
		}
	}
	sort.Slice(out, func(i, j int) bool { return Less(out[i], out[j]) })
	return out
}

// Keys returns all keys sorted lexicographically by element list.
func (t *Tree) Keys() [][]string {
	var out [][]string
	for k := range t.M {
		out = append(out, Unkey(k))
	}
	sort.Slice(out, func(i, j int) bool { return Less(out[i], out[j]) })
	return out
}

// Delete removes the keys selected by q that satisfy cond and returns them sorted.
func (t *Tree) Delete(q []string, cond func(v interface{}) bool) [][]string {
	var out [][]string
	for _, kp := range t.Query(q) {
		k := Key(kp)
		if cond == nil || cond(t.M[k]) {
			delete(t.M, k)
			out = append(out, kp)
		}
	}
	return out
}

// Get returns the value at exactly p.
func (t *Tree) Get(p []string) (interface{}, bool) {
	v, ok := t.M[Key(p)]
	return v, ok
}

// IsBranch: p is a proper prefix of some key.
func (t *Tree) IsBranch(p []string) bool {
	for k := range t.M {
		if IsProperPrefix(p, Unkey(k)) {
			return true
		}
	}
	return false
}

// Children returns the distinct next elements below p.
func (t *Tree) Children(p []string) []string {
	set := map[string]struct{}{}
	for k := range t.M {
		kp := Unkey(k)
		if IsProperPrefix(p, kp) {
			set[kp[len(p)]] = struct{}{}
		}
	}
	var out []string
	for k := range set {
		out = append(out, k)
	}
	sort.Strings(out)
	return out
}

// ---- index specification (independent of path.ToStrings) ----

// IndexPath is the specification of the index form of a gNMI path: per elem
// its name followed by its key values ordered by key name; the deprecated
// element list is used only when elem is empty.
func IndexPath(p *pb.Path) []string {
	out := []string{}
	if p == nil {
		return out
	}
	if len(p.Elem) == 0 {
		return append(out, p.Element...)
	}
	for _, e := range p.Elem {
		out = append(out, e.GetName())
		names := make([]string, 0, len(e.GetKey()))
		for k := range e.GetKey() {
			names = append(names, k)
		}
		sort.Strings(names)
		for _, k := range names {
			out = append(out, e.Key[k])
		}
	}
	return out
}

// IndexPrefix is IndexPath preceded by target and origin when non-empty.
func IndexPrefix(p *pb.Path) []string {
	out := []string{}
	if p.GetTarget() != "" {
		out = append(out, p.GetTarget())
	}
	if p.GetOrigin() != "" {
		out = append(out, p.GetOrigin())
	}
	return append(out, IndexPath(p)...)
}

// CacheIndex is the index under which the cache stores an update: origin (if
// any) + prefix elements + path elements, target excluded.
func CacheIndex(prefix, p *pb.Path) []string {
	out := []string{}
	if prefix.GetOrigin() != "" {
		out = append(out, prefix.GetOrigin())
	}
	out = append(out, IndexPath(prefix)...)
	return append(out, IndexPath(p)...)
}

// Shadow is a map from index path (target first) to a value, driven by
// replaying notifications: the model of "what a consumer of the feed holds".
type Shadow struct {
	M map[string]*pb.Notification
}

// NewShadow returns an empty shadow.
func NewShadow() *Shadow { return &Shadow{M: map[string]*pb.Notification{}} }

// Apply replays a notification: an update sets its key, an atomic update sets
// the single key of its prefix, a delete removes every key its path covers.
func (s *Shadow) Apply(n *pb.Notification) {
	pre := IndexPrefix(n.GetPrefix())
	if n.GetAtomic() && len(n.GetUpdate()) > 0 {
		s.M[Key(pre)] = n
	} else {
		for _, u := range n.GetUpdate() {
			s.M[Key(append(append([]string{}, pre...), IndexPath(u.GetPath())...))] = n
		}
	}
	for _, d := range n.GetDelete() {
		q := append(append([]string{}, pre...), IndexPath(d)...)
		for k := range s.M {
			if MatchQ(q, Unkey(k)) {
				delete(s.M, k)
			}
		}
	}
}
