// Package vlib is the common machinery of the /verif checks: seeds, tiers,
// sharding into child processes, verdict bookkeeping, evidence and replay
// files, known findings, crash and race-report classification.
package vlib

import (
	"bytes"
	"encoding/json"
	"flag"
	"fmt"
	"hash/fnv"
	"math/rand"
	"os"
	"os/exec"
	"path/filepath"
	"regexp"
	"sort"
	"strconv"
	"strings"
	"sync"
	"syscall"
	"time"
)

// Spec describes one check.
type Spec struct {
	ID          string
	Level       string // evidence level, normally "exploration"
	Rule        string // how cases are generated and what makes one distinct and non-trivial
	Assumptions []string
	// Shards returns the number of child processes for a tier.
	QuickShards, ThoroughShards int
	// RaceShards: that many additional children run the race-instrumented
	// binary (<bin>.race) with VERIF_RACE=1. RaceAnchors are substrings of file
	// paths; a report is attributed to the property when a frame of either
	// stack matches. RaceDeciding turns attributed reports into violations.
	RaceShardsQuick, RaceShardsThorough int
	RaceAnchors                         []string
	RaceDeciding                        bool
	// Timeouts per child (watchdog only, never a verdict).
	QuickTimeout, ThoroughTimeout time.Duration
	// MinDistinct is the floor of distinct non-trivial cases below which the
	// run is reported inconclusive (and exits 2: a check that observed
	// nothing is broken).
	MinDistinctQuick, MinDistinctThorough int
	Body                                  func(r *Run)
	// Prepare, if set, runs once in the parent before the children start (for
	// example to build the repository's real binaries into workDir, which the
	// children see as Run.WorkDir). An error makes the run broken (exit 2).
	Prepare func(tier, workDir string) error
	// PostMerge, if set, is called by the parent with the merged counters and
	// tier; the strings it returns are recorded as inconclusive reasons (for
	// example "window X was never hit").
	PostMerge func(tier string, counters map[string]int64) []string
}

// Violation is one refutation of the property.
type Violation struct {
	Property  string      `json:"property"`
	Signature string      `json:"signature"`
	What      string      `json:"what"`
	Tier      string      `json:"tier"`
	Seed      int64       `json:"seed"`
	Trial     int         `json:"trial"`
	Mode      string      `json:"mode,omitempty"`
	Witness   interface{} `json:"witness,omitempty"`
}

// Run is the per-process state of a check.
type Run struct {
	Spec   *Spec
	Tier   string
	Seed   int64
	Shard  int
	Shards int
	Race   bool // this process is a race-instrumented worker
	// OnlyTrial >= 0 restricts ForTrials to that trial (replay).
	OnlyTrial int
	OnlyMode  string
	WorkDir   string
	Root      string

	mu           sync.Mutex
	evals        int64
	distinct     map[uint64]struct{}
	counters     map[string]int64
	samples      []interface{}
	violations   []Violation
	nviol        int64
	inconclusive map[string]int64
	sets         map[string]map[string]struct{}
}

type childResult struct {
	Evals        int64               `json:"evals"`
	Distinct     []uint64            `json:"distinct"`
	Counters     map[string]int64    `json:"counters"`
	Samples      []interface{}       `json:"samples"`
	Violations   []Violation         `json:"violations"`
	NViol        int64               `json:"nviol"`
	Inconclusive map[string]int64    `json:"inconclusive"`
	Sets         map[string][]string `json:"sets"`
}

// Quick reports whether the quick tier is running.
func (r *Run) Quick() bool { return r.Tier == "quick" }

// N selects a case count by tier.
func (r *Run) N(quick, thorough int) int {
	if r.Quick() {
		return quick
	}
	return thorough
}

// Mix derives a sub-seed.
func Mix(a int64, b ...int64) int64 {
	x := uint64(a)*0x9E3779B97F4A7C15 + 0x632BE59BD9B4E019
	for _, v := range b {
		x ^= uint64(v) + 0x9E3779B97F4A7C15 + (x << 6) + (x >> 2)
		x *= 0xBF58476D1CE4E5B9
		x ^= x >> 31
	}
	return int64(x & 0x7fffffffffffffff)
}

// Rand returns the PRNG of a trial of a mode: determined by seed, mode and trial only.
func (r *Run) Rand(mode string, trial int) *rand.Rand {
	h := fnv.New64a()
	h.Write([]byte(mode))
	return rand.New(rand.NewSource(Mix(r.Seed, int64(h.Sum64()&0x7fffffffffffffff), int64(trial))))
}

// ForTrials runs f for the trials of this shard (trial % Shards == Shard), or
// only the replayed trial.
func (r *Run) ForTrials(mode string, n int, f func(trial int, rng *rand.Rand)) {
	if r.OnlyTrial >= 0 {
		if r.OnlyMode == mode {
			f(r.OnlyTrial, r.Rand(mode, r.OnlyTrial))
		}
		return
	}
	for i := 0; i < n; i++ {
		if i%r.Shards != r.Shard {
			continue
		}
		f(i, r.Rand(mode, i))
	}
}

// Mine reports whether index i belongs to this shard (for enumerations).
func (r *Run) Mine(i int) bool {
	if r.OnlyTrial >= 0 {
		return i == r.OnlyTrial
	}
	return i%r.Shards == r.Shard
}

// Eval counts executions.
func (r *Run) Eval(n int) {
	r.mu.Lock()
	r.evals += int64(n)
	r.mu.Unlock()
}

// Distinct records a distinct non-trivial case by hash.
func (r *Run) Distinct(h uint64) {
	r.mu.Lock()
	r.distinct[h] = struct{}{}
	r.mu.Unlock()
}

// Hash hashes a canonical rendering of v.
func Hash(parts ...interface{}) uint64 {
	h := fnv.New64a()
	for _, p := range parts {
		switch x := p.(type) {
		case string:
			h.Write([]byte(x))
		case []byte:
			h.Write(x)
		default:
			fmt.Fprintf(h, "%v", x)
		}
		h.Write([]byte{0})
	}
	return h.Sum64()
}

// Count adds to a named counter reported in the evidence.
func (r *Run) Count(name string, d int64) {
	r.mu.Lock()
	r.counters[name] += d
	r.mu.Unlock()
}

// SetAdd adds a member to a named set whose size is reported in the evidence
// (e.g. distinct interleaving signatures).
func (r *Run) SetAdd(name, member string) {
	r.mu.Lock()
	m := r.sets[name]
	if m == nil {
		m = map[string]struct{}{}
		r.sets[name] = m
	}
	if len(m) < 200000 {
		m[member] = struct{}{}
	}
	r.mu.Unlock()
}

// Sample keeps up to 4 samples per process.
func (r *Run) Sample(v interface{}) {
	r.mu.Lock()
	if len(r.samples) < 4 {
		r.samples = append(r.samples, v)
	}
	r.mu.Unlock()
}

// WantSample reports whether another sample is still wanted.
func (r *Run) WantSample() bool {
	r.mu.Lock()
	defer r.mu.Unlock()
	return len(r.samples) < 4
}

// Violation records a refutation.
func (r *Run) Violation(mode string, trial int, signature, what string, witness interface{}) {
	r.mu.Lock()
	defer r.mu.Unlock()
	r.nviol++
	perSig := 0
	for _, v := range r.violations {
		if v.Signature == signature {
			perSig++
		}
	}
	if perSig >= 3 || len(r.violations) >= 60 {
		return
	}
	r.violations = append(r.violations, Violation{Property: r.Spec.ID, Signature: signature, What: what, Tier: r.Tier, Seed: r.Seed, Trial: trial, Mode: mode, Witness: witness})
}

// NViolations returns the number of violations recorded so far in this process.
func (r *Run) NViolations() int64 {
	r.mu.Lock()
	defer r.mu.Unlock()
	return r.nviol
}

// Inconclusive records a case that could not be judged.
func (r *Run) Inconclusive(reason string) {
	r.mu.Lock()
	r.inconclusive[reason]++
	r.mu.Unlock()
}

func newRun(s *Spec) *Run {
	r := &Run{Spec: s, Tier: "quick", Seed: 1, Shards: 1, OnlyTrial: -1,
		distinct: map[uint64]struct{}{}, counters: map[string]int64{}, inconclusive: map[string]int64{}, sets: map[string]map[string]struct{}{}}
	if t := os.Getenv("VERIF_TIER"); t == "thorough" || t == "quick" {
		r.Tier = t
	}
	if s := os.Getenv("VERIF_SEED"); s != "" {
		if v, err := strconv.ParseInt(s, 10, 64); err == nil {
			r.Seed = v
		}
	}
	r.Root = os.Getenv("VERIF_ROOT")
	if r.Root == "" {
		r.Root = "/verif"
	}
	return r
}

// Main is the entry point of every check binary.
func Main(s *Spec) {
	// glog writes files into /tmp unless told otherwise.
	if f := flag.Lookup("logtostderr"); f != nil {
		f.Value.Set("true")
	}
	if f := flag.Lookup("stderrthreshold"); f != nil {
		f.Value.Set("FATAL")
	}
	if s.Level == "" {
		s.Level = "exploration"
	}
	r := newRun(s)
	if sh := os.Getenv("VERIF_SHARD"); sh != "" {
		// Child.
		fmt.Sscanf(sh, "%d/%d", &r.Shard, &r.Shards)
		r.Race = os.Getenv("VERIF_RACE") == "1"
		r.WorkDir = os.Getenv("VERIF_WORK")
		if t := os.Getenv("VERIF_ONLY_TRIAL"); t != "" {
			r.OnlyTrial, _ = strconv.Atoi(t)
			r.OnlyMode = os.Getenv("VERIF_ONLY_MODE")
		}
		s.Body(r)
		r.writeChild(os.Getenv("VERIF_OUT"))
		return
	}
	os.Exit(r.parent())
}

func (r *Run) writeChild(path string) {
	r.mu.Lock()
	defer r.mu.Unlock()
	cr := childResult{Evals: r.evals, Counters: r.counters, Samples: r.samples, Violations: r.violations, NViol: r.nviol, Inconclusive: r.inconclusive, Sets: map[string][]string{}}
	for h := range r.distinct {
		cr.Distinct = append(cr.Distinct, h)
	}
	for k, m := range r.sets {
		for v := range m {
			cr.Sets[k] = append(cr.Sets[k], v)
		}
	}
	b, err := json.Marshal(cr)
	if err != nil {
		fmt.Fprintf(os.Stderr, "vlib: cannot marshal result: %v\n", err)
		os.Exit(3)
	}
	if err := os.WriteFile(path, b, 0o644); err != nil {
		fmt.Fprintf(os.Stderr, "vlib: cannot write result: %v\n", err)
		os.Exit(3)
	}
}

type knownFile struct {
	Findings []struct {
		Property  string `json:"property"`
		Signature string `json:"signature"`
		What      string `json:"what"`
	} `json:"findings"`
	Fixed []string `json:"fixed"`
}

func (r *Run) parent() int {
	start := time.Now()
	s := r.Spec
	replay := os.Getenv("VERIF_REPLAY")
	var rv *Violation
	if replay != "" {
		b, err := os.ReadFile(replay)
		if err != nil {
			fmt.Fprintf(os.Stderr, "cannot read replay file: %v\n", err)
			return 2
		}
		rv = &Violation{}
		if err := json.Unmarshal(b, rv); err != nil {
			fmt.Fprintf(os.Stderr, "cannot parse replay file: %v\n", err)
			return 2
		}
		r.Tier, r.Seed = rv.Tier, rv.Seed
	}
	work := filepath.Join(r.Root, ".work", fmt.Sprintf("%s-%d", strings.ToLower(s.ID), os.Getpid()))
	os.MkdirAll(work, 0o755)
	keepWork := false
	defer func() {
		if !keepWork {
			os.RemoveAll(work)
		}
	}()
	exe, _ := os.Executable()
	shards := s.QuickShards
	raceShards := s.RaceShardsQuick
	timeout := s.QuickTimeout
	minDistinct := s.MinDistinctQuick
	if r.Tier == "thorough" {
		shards, raceShards, timeout, minDistinct = s.ThoroughShards, s.RaceShardsThorough, s.ThoroughTimeout, s.MinDistinctThorough
	}
	if shards <= 0 {
		shards = 1
	}
	if timeout == 0 {
		timeout = 20 * time.Minute
		if r.Tier == "thorough" {
			timeout = 90 * time.Minute
		}
	}
	if minDistinct < 2 {
		minDistinct = 2
	}
	if rv != nil {
		shards, raceShards = 1, 0
	}
	if s.Prepare != nil {
		if err := s.Prepare(r.Tier, work); err != nil {
			fmt.Printf("BROKEN: prepare failed: %v\n", err)
			return 2
		}
	}
	total := shards + raceShards
	type child struct {
		idx       int
		race      bool
		out, logf string
		err       error
		timedOut  bool
	}
	children := make([]*child, total)
	var wg sync.WaitGroup
	for i := 0; i < total; i++ {
		c := &child{idx: i, race: i >= shards}
		children[i] = c
		c.out = filepath.Join(work, fmt.Sprintf("result.%d.json", i))
		c.logf = filepath.Join(work, fmt.Sprintf("log.%d.txt", i))
		bin := exe
		env := append(os.Environ(), "VERIF_TIER="+r.Tier, fmt.Sprintf("VERIF_SEED=%d", r.Seed), "VERIF_OUT="+c.out, "VERIF_WORK="+work, "GOTRACEBACK=all")
		if c.race {
			bin = exe + ".race"
			env = append(env, fmt.Sprintf("VERIF_SHARD=%d/%d", i-shards, raceShards), "VERIF_RACE=1",
				"GORACE=halt_on_error=0 exitcode=0 history_size=5 log_path="+filepath.Join(work, fmt.Sprintf("race.%d", i)))
		} else {
			env = append(env, fmt.Sprintf("VERIF_SHARD=%d/%d", i, shards))
		}
		if rv != nil {
			env = append(env, fmt.Sprintf("VERIF_ONLY_TRIAL=%d", rv.Trial), "VERIF_ONLY_MODE="+rv.Mode)
		}
		wg.Add(1)
		go func() {
			defer wg.Done()
			lf, _ := os.Create(c.logf)
			defer lf.Close()
			cmd := exec.Command(bin)
			cmd.Env = env
			cmd.Stdout, cmd.Stderr = lf, lf
			if err := cmd.Start(); err != nil {
				c.err = err
				return
			}
			done := make(chan error, 1)
			go func() { done <- cmd.Wait() }()
			select {
			case c.err = <-done:
			case <-time.After(timeout):
				c.timedOut = true
				cmd.Process.Signal(syscall.SIGQUIT)
				select {
				case <-done:
				case <-time.After(20 * time.Second):
					cmd.Process.Kill()
					<-done
				}
			}
		}()
	}
	wg.Wait()

	// Merge.
	merged := childResult{Counters: map[string]int64{}, Inconclusive: map[string]int64{}, Sets: map[string][]string{}}
	distinct := map[uint64]struct{}{}
	sets := map[string]map[string]struct{}{}
	broken := []string{}
	for _, c := range children {
		b, rerr := os.ReadFile(c.out)
		if c.timedOut {
			broken = append(broken, fmt.Sprintf("child %d: watchdog fired after %v (log kept: %s)", c.idx, timeout, c.logf))
			keepWork = true
			continue
		}
		if rerr != nil || c.err != nil {
			// Crash: attribute it.
			logb, _ := os.ReadFile(c.logf)
			site, msg := classifyCrash(logb)
			if site != "" {
				keepWork = true
				merged.NViol++
				merged.Violations = append(merged.Violations, Violation{Property: s.ID, Signature: "crash:" + site, What: "process crashed in code under test: " + msg, Tier: r.Tier, Seed: r.Seed, Trial: -1,
					Witness: map[string]interface{}{"log": c.logf, "shard": c.idx, "current_case": readCurrent(work, c.idx)}})
				continue
			}
			broken = append(broken, fmt.Sprintf("child %d failed (%v) without a result; log kept: %s; tail: %s", c.idx, c.err, c.logf, tail(logb, 1500)))
			keepWork = true
			continue
		}
		var cr childResult
		if err := json.Unmarshal(b, &cr); err != nil {
			broken = append(broken, fmt.Sprintf("child %d: bad result: %v", c.idx, err))
			continue
		}
		merged.Evals += cr.Evals
		merged.NViol += cr.NViol
		for _, h := range cr.Distinct {
			distinct[h] = struct{}{}
		}
		for k, v := range cr.Counters {
			merged.Counters[k] += v
		}
		for k, v := range cr.Inconclusive {
			merged.Inconclusive[k] += v
		}
		for k, vs := range cr.Sets {
			if sets[k] == nil {
				sets[k] = map[string]struct{}{}
			}
			for _, v := range vs {
				sets[k][v] = struct{}{}
			}
		}
		if len(merged.Samples) < 5 {
			for _, smp := range cr.Samples {
				if len(merged.Samples) < 5 {
					merged.Samples = append(merged.Samples, smp)
				}
			}
		}
		merged.Violations = append(merged.Violations, cr.Violations...)
	}

	// Race reports.
	raceInfo := map[string]interface{}{}
	if raceShards > 0 {
		reports := parseRaceLogs(work)
		attributed, other := 0, 0
		seen := map[string]int{}
		for _, rep := range reports {
			anch := false
			for _, a := range s.RaceAnchors {
				if strings.Contains(rep.frames, a) {
					anch = true
				}
			}
			if !anch {
				other++
				continue
			}
			attributed++
			seen[rep.sig]++
			if s.RaceDeciding && seen[rep.sig] == 1 {
				keepWork = true
				merged.NViol++
				merged.Violations = append(merged.Violations, Violation{Property: s.ID, Signature: "race:" + rep.sig, What: "data race reported by the race detector", Tier: r.Tier, Seed: r.Seed, Trial: -1, Witness: map[string]interface{}{"report": rep.text}})
			}
		}
		raceInfo["race_reports_total"] = len(reports)
		raceInfo["race_reports_attributed"] = attributed
		raceInfo["race_reports_other_packages_diagnostic"] = other
		raceInfo["race_distinct_signatures"] = len(seen)
		raceInfo["race_workers"] = raceShards
		raceInfo["race_deciding"] = s.RaceDeciding
	}

	// Known findings.
	var kf knownFile
	if b, err := os.ReadFile(filepath.Join(r.Root, "known_findings.json")); err == nil {
		json.Unmarshal(b, &kf)
	}
	known := map[string]string{}
	for _, f := range kf.Findings {
		if f.Property == s.ID {
			known[f.Signature] = f.What
		}
	}
	exit := 0
	printedKnown := map[string]bool{}
	unlisted := 0
	// Runs against another tree than /repo (VERIF_REPO: scratch worktrees carrying
	// a seeded change) are not evidence about /repo: their evidence and replay
	// files go to .work/alt instead of /verif/evidence and /verif/replay.
	outRoot := r.Root
	if vr := os.Getenv("VERIF_REPO"); vr != "" && vr != "/repo" {
		outRoot = filepath.Join(r.Root, ".work", "alt")
	}
	os.MkdirAll(filepath.Join(outRoot, "replay", s.ID), 0o755)
	perSig := map[string]int{}
	written := 0
	for i, v := range merged.Violations {
		if what, ok := known[v.Signature]; ok {
			if !printedKnown[v.Signature] {
				fmt.Printf("KNOWN-FINDING: property=%s %s [%s]\n", s.ID, what, v.Signature)
				printedKnown[v.Signature] = true
			}
			continue
		}
		unlisted++
		exit = 1
		perSig[v.Signature]++
		if rv == nil && (perSig[v.Signature] > 2 || written >= 12) {
			continue
		}
		written++
		if rv != nil {
			fmt.Printf("VIOLATION property=%s replay=%s (recurred on replay: %s)\n", s.ID, replay, v.What)
			exit = 1
			continue
		}
		p := filepath.Join(outRoot, "replay", s.ID, fmt.Sprintf("%d-%s-%d-%d.json", r.Seed, r.Tier, v.Trial, i))
		b, _ := json.MarshalIndent(v, "", " ")
		os.WriteFile(p, b, 0o644)
		fmt.Printf("VIOLATION property=%s replay=%s\n", s.ID, p)
		fmt.Printf("  signature: %s\n  what: %s\n", v.Signature, truncate(v.What, 600))
		exit = 1
	}

	if s.PostMerge != nil && rv == nil {
		for _, why := range s.PostMerge(r.Tier, merged.Counters) {
			merged.Inconclusive[why]++
		}
	}
	inconcl := []string{}
	for k, v := range merged.Inconclusive {
		inconcl = append(inconcl, fmt.Sprintf("%s (x%d)", k, v))
	}
	sort.Strings(inconcl)
	if len(distinct) < minDistinct && rv == nil {
		broken = append(broken, fmt.Sprintf("only %d distinct non-trivial cases observed (floor %d)", len(distinct), minDistinct))
	}

	if rv != nil {
		if exit == 0 {
			fmt.Printf("replay of %s: violation did not recur (%d evaluations)\n", replay, merged.Evals)
		}
		return exit
	}

	// Evidence.
	cov := map[string]interface{}{
		"evaluations":         merged.Evals,
		"distinct_nontrivial": len(distinct),
		"rule":                s.Rule,
		"samples":             merged.Samples,
		"counters":            merged.Counters,
		"shards":              shards,
	}
	if len(merged.Samples) == 0 {
		cov["samples"] = []interface{}{"(no sample recorded)"}
	}
	for k, m := range sets {
		cov["distinct_"+k] = len(m)
	}
	for k, v := range raceInfo {
		cov[k] = v
	}
	if len(inconcl) > 0 {
		cov["inconclusive"] = inconcl
	}
	if len(broken) > 0 {
		cov["broken"] = broken
	}
	if len(printedKnown) > 0 {
		ks := []string{}
		for k := range printedKnown {
			ks = append(ks, k)
		}
		sort.Strings(ks)
		cov["known_findings_reproduced"] = ks
	}
	ev := map[string]interface{}{
		"property_id": s.ID,
		"tier":        r.Tier,
		"seed":        r.Seed,
		"level":       s.Level,
		"coverage":    cov,
		"assumptions": s.Assumptions,
		"wall_s":      time.Since(start).Seconds(),
		"violations":  unlisted,
	}
	os.MkdirAll(filepath.Join(outRoot, "evidence"), 0o755)
	b, _ := json.MarshalIndent(ev, "", " ")
	if err := os.WriteFile(filepath.Join(outRoot, "evidence", s.ID+".json"), b, 0o644); err != nil {
		fmt.Fprintf(os.Stderr, "cannot write evidence: %v\n", err)
		return 2
	}
	fmt.Printf("%s %s seed=%d: evaluations=%d distinct_nontrivial=%d violations=%d (unlisted %d) inconclusive=%d wall=%.1fs\n",
		s.ID, r.Tier, r.Seed, merged.Evals, len(distinct), merged.NViol, unlisted, len(inconcl), time.Since(start).Seconds())
	keys := []string{}
	for k := range merged.Counters {
		keys = append(keys, k)
	}
	sort.Strings(keys)
	for _, k := range keys {
		fmt.Printf("  %s=%d\n", k, merged.Counters[k])
	}
	for k, m := range sets {
		fmt.Printf("  distinct_%s=%d\n", k, len(m))
	}
	for k, v := range raceInfo {
		fmt.Printf("  %s=%v\n", k, v)
	}
	for _, s := range inconcl {
		fmt.Printf("  INCONCLUSIVE: %s\n", s)
	}
	if exit == 0 && len(broken) > 0 {
		for _, b := range broken {
			fmt.Printf("BROKEN: %s\n", b)
		}
		return 2
	}
	return exit
}

func truncate(s string, n int) string {
	if len(s) > n {
		return s[:n] + "…"
	}
	return s
}

func tail(b []byte, n int) string {
	if len(b) > n {
		b = b[len(b)-n:]
	}
	return string(b)
}

// SaveCurrent writes the case about to be executed, so that a crash that
// recover cannot see still has its input on disk.
func (r *Run) SaveCurrent(v interface{}) {
	if r.WorkDir == "" {
		return
	}
	b, _ := json.Marshal(v)
	idx := r.Shard
	os.WriteFile(filepath.Join(r.WorkDir, fmt.Sprintf("current.%d.json", idx)), b, 0o644)
}

func readCurrent(work string, idx int) interface{} {
	b, err := os.ReadFile(filepath.Join(work, fmt.Sprintf("current.%d.json", idx)))
	if err != nil {
		return nil
	}
	var v interface{}
	json.Unmarshal(b, &v)
	return v
}

var frameRe = regexp.MustCompile(`(?m)^([A-Za-z0-9_./\-]+(?:\.\(\*?[A-Za-z0-9_]+\))?\.[A-Za-z0-9_.]+(?:\[\.\.\.\])?)\(`)

// classifyCrash finds the panic / fatal error in a child's log and returns the
// innermost frame that belongs to the code under test, or "" when the crash
// is the harness's own.
func classifyCrash(log []byte) (site, msg string) {
	s := string(log)
	i := strings.Index(s, "\npanic: ")
	j := strings.Index(s, "fatal error: ")
	if strings.HasPrefix(s, "panic: ") {
		i = 0
	}
	at := -1
	switch {
	case i >= 0 && (j < 0 || i < j):
		at = i
	case j >= 0:
		at = j
	}
	if at < 0 {
		return "", ""
	}
	rest := s[at:]
	nl := strings.Index(strings.TrimLeft(rest, "\n"), "\n")
	msg = strings.TrimSpace(strings.TrimLeft(rest, "\n"))
	if nl > 0 && nl < len(msg) {
		msg = msg[:nl]
	}
	// First goroutine block after the message.
	g := strings.Index(rest, "\ngoroutine ")
	if g < 0 {
		return "", msg
	}
	block := rest[g+1:]
	if e := strings.Index(block, "\n\n"); e > 0 {
		block = block[:e]
	}
	for _, m := range frameRe.FindAllStringSubmatch(block, -1) {
		fn := m[1]
		if strings.HasPrefix(fn, "runtime.") || strings.HasPrefix(fn, "runtime/") || strings.HasPrefix(fn, "panic") || strings.HasPrefix(fn, "sync.") || strings.HasPrefix(fn, "sync/") || strings.HasPrefix(fn, "internal/") {
			continue
		}
		if strings.HasPrefix(fn, "github.com/openconfig/gnmi/") {
			return strings.TrimPrefix(fn, "github.com/openconfig/gnmi/"), msg
		}
		// First non-runtime frame is not code under test: harness crash, unless
		// a later frame of the same goroutine is (callback from repo code into
		// the harness is still the harness's fault).
		return "", msg
	}
	return "", msg
}

type raceReport struct {
	sig    string
	frames string
	text   string
}

var lineNoRe = regexp.MustCompile(`:\d+ \+0x[0-9a-f]+`)

func parseRaceLogs(work string) []raceReport {
	files, _ := filepath.Glob(filepath.Join(work, "race.*"))
	var out []raceReport
	for _, f := range files {
		b, err := os.ReadFile(f)
		if err != nil {
			continue
		}
		blocks := bytes.Split(b, []byte("WARNING: DATA RACE"))
		for _, blk := range blocks[1:] {
			txt := string(blk)
			if e := strings.Index(txt, "=================="); e > 0 {
				txt = txt[:e]
			}
			parts := strings.Split(txt, "\n\n")
			var sigs []string
			var frames []string
			for k, p := range parts {
				if k >= 2 {
					break
				}
				lines := strings.Split(strings.TrimSpace(p), "\n")
				if len(lines) == 0 {
					continue
				}
				kind := strings.TrimSpace(strings.SplitN(lines[0], " at ", 2)[0])
				// The access site of this stack: the first frame outside the Go
				// runtime / standard library (function line followed by file line).
				fn, site := "?", ""
				for i := 1; i+1 < len(lines); i += 2 {
					f := strings.TrimSpace(lines[i])
					loc := strings.TrimSpace(lines[i+1])
					if !strings.HasPrefix(loc, "/") {
						break
					}
					if strings.Contains(loc, "/go-1.") || strings.Contains(loc, "/go/src/") || strings.Contains(loc, "/veriftools/go") {
						continue
					}
					fn = strings.TrimSuffix(strings.TrimPrefix(f, "github.com/openconfig/gnmi/"), "()")
					site = lineNoRe.ReplaceAllString(loc, "")
					break
				}
				frames = append(frames, site)
				sigs = append(sigs, kind+"@"+fn)
			}
			sort.Strings(sigs)
			out = append(out, raceReport{sig: strings.Join(sigs, "|"), frames: strings.Join(frames, "\n"), text: truncate("WARNING: DATA RACE"+txt, 6000)})
		}
	}
	return out
}
