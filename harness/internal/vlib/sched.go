package vlib

import (
	"fmt"
	"hash/fnv"
	"math/rand"
	"runtime"
	"sync"
	"time"
)

// Perturb is a handler for the verifhook points: seeded perturbation of the
// schedule (yield / short sleep), optional long holds and gates on named
// points, and a log of the points reached from which an interleaving
// signature is computed. It never decides a verdict.
type Perturb struct {
	mu   sync.Mutex
	rng  *rand.Rand
	hits map[string]int64
	seq  []string

	// MaxSleep bounds the random sleep at a point (0: only yield).
	MaxSleep time.Duration
	// SleepProb is the probability of sleeping (vs. yielding or nothing).
	SleepProb float64
	// Hold makes the named point sleep for the given time on every hit.
	Hold map[string]time.Duration
	// Gate blocks the named point until the channel is closed or Timeout passes.
	Gate        map[string]chan struct{}
	GateTimeout time.Duration
	// OnPoint, if set, is called first with the point name and key.
	OnPoint func(name string, key interface{})
	// Only restricts perturbation to points whose key satisfies the predicate.
	Only func(name string, key interface{}) bool
	// LogLimit bounds the recorded sequence.
	LogLimit int
}

// NewPerturb creates a handler with its own PRNG.
func NewPerturb(seed int64) *Perturb {
	return &Perturb{rng: rand.New(rand.NewSource(seed)), hits: map[string]int64{}, SleepProb: 0.3, LogLimit: 4096, GateTimeout: 5 * time.Millisecond}
}

// Handle is the verifhook handler.
func (p *Perturb) Handle(name string, key interface{}) {
	if p.OnPoint != nil {
		p.OnPoint(name, key)
	}
	if p.Only != nil && !p.Only(name, key) {
		return
	}
	p.mu.Lock()
	p.hits[name]++
	if len(p.seq) < p.LogLimit {
		p.seq = append(p.seq, name)
	}
	x := p.rng.Float64()
	var d time.Duration
	if p.MaxSleep > 0 {
		d = time.Duration(p.rng.Int63n(int64(p.MaxSleep) + 1))
	}
	hold := p.Hold[name]
	gate := p.Gate[name]
	p.mu.Unlock()
	if gate != nil {
		select {
		case <-gate:
		case <-time.After(p.GateTimeout):
		}
		return
	}
	if hold > 0 {
		time.Sleep(hold)
		return
	}
	switch {
	case x < p.SleepProb && d > 0:
		time.Sleep(d)
	case x < 0.8:
		runtime.Gosched()
	}
}

// Hits returns how often each point was reached.
func (p *Perturb) Hits() map[string]int64 {
	p.mu.Lock()
	defer p.mu.Unlock()
	m := map[string]int64{}
	for k, v := range p.hits {
		m[k] = v
	}
	return m
}

// Signature hashes the sequence of points reached.
func (p *Perturb) Signature() string {
	p.mu.Lock()
	defer p.mu.Unlock()
	h := fnv.New64a()
	for _, s := range p.seq {
		h.Write([]byte(s))
		h.Write([]byte{0})
	}
	return fmt.Sprintf("%d:%x", len(p.seq), h.Sum64())
}
