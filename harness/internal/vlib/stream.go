package vlib

import (
	"context"
	"io"
	"net"
	"sync"

	"google.golang.org/grpc/metadata"
	"google.golang.org/grpc/peer"
	"google.golang.org/protobuf/proto"

	pb "github.com/openconfig/gnmi/proto/gnmi"
)

// Stream is an in-memory implementation of pb.GNMI_SubscribeServer. The
// harness plays the client: it hands requests to Recv and observes every
// response passed to Send, in order.
type Stream struct {
	ctx    context.Context
	cancel context.CancelFunc

	mu     sync.Mutex
	cond   *sync.Cond
	sent   []*pb.SubscribeResponse
	reqs   []*pb.SubscribeRequest
	eof    bool
	nrecv  int
	closed bool

	// SendGate, if set, is called (without locks) before a response is
	// recorded; it may block to emulate a stalled peer and may return an error.
	SendGate func(i int, r *pb.SubscribeResponse) error
	// OnSend, if set, is called after a response was recorded.
	OnSend func(i int, r *pb.SubscribeResponse)
	// NoClone keeps the very object passed to Send (default: deep clone at send time).
	NoClone bool
}

type userKey struct{}

// NewStream creates a stream whose context carries a peer and the given user.
func NewStream(parent context.Context, user string) *Stream {
	ctx, cancel := context.WithCancel(parent)
	ctx = peer.NewContext(ctx, &peer.Peer{Addr: &net.TCPAddr{IP: net.IPv4(127, 0, 0, 1), Port: 4242}})
	ctx = context.WithValue(ctx, userKey{}, user)
	s := &Stream{ctx: ctx, cancel: cancel}
	s.cond = sync.NewCond(&s.mu)
	go func() {
		<-ctx.Done()
		s.mu.Lock()
		s.closed = true
		s.cond.Broadcast()
		s.mu.Unlock()
	}()
	return s
}

// User returns the user stored in a stream context by NewStream.
func User(ctx context.Context) string {
	u, _ := ctx.Value(userKey{}).(string)
	return u
}

// Push makes a request available to Recv.
func (s *Stream) Push(r *pb.SubscribeRequest) {
	s.mu.Lock()
	s.reqs = append(s.reqs, r)
	s.cond.Broadcast()
	s.mu.Unlock()
}

// CloseSend makes Recv return io.EOF once the pushed requests are consumed.
func (s *Stream) CloseSend() {
	s.mu.Lock()
	s.eof = true
	s.cond.Broadcast()
	s.mu.Unlock()
}

// Cancel cancels the stream's context (the peer went away).
func (s *Stream) Cancel() { s.cancel() }

// Recv implements the server stream.
func (s *Stream) Recv() (*pb.SubscribeRequest, error) {
	s.mu.Lock()
	defer s.mu.Unlock()
	for {
		if s.nrecv < len(s.reqs) {
			r := s.reqs[s.nrecv]
			s.nrecv++
			return r, nil
		}
		if s.eof {
			return nil, io.EOF
		}
		if s.closed {
			return nil, s.ctx.Err()
		}
		s.cond.Wait()
	}
}

// Send implements the server stream.
func (s *Stream) Send(r *pb.SubscribeResponse) error {
	s.mu.Lock()
	i := len(s.sent)
	s.mu.Unlock()
	if s.SendGate != nil {
		if err := s.SendGate(i, r); err != nil {
			return err
		}
	}
	if err := s.ctx.Err(); err != nil {
		return err
	}
	c := r
	if !s.NoClone {
		c = proto.Clone(r).(*pb.SubscribeResponse)
	}
	s.mu.Lock()
	i = len(s.sent)
	s.sent = append(s.sent, c)
	s.cond.Broadcast()
	s.mu.Unlock()
	if s.OnSend != nil {
		s.OnSend(i, c)
	}
	return nil
}

// Sent returns a snapshot of the responses sent so far.
func (s *Stream) Sent() []*pb.SubscribeResponse {
	s.mu.Lock()
	defer s.mu.Unlock()
	return append([]*pb.SubscribeResponse(nil), s.sent...)
}

// NSent returns the number of responses sent so far.
func (s *Stream) NSent() int {
	s.mu.Lock()
	defer s.mu.Unlock()
	return len(s.sent)
}

// WaitSent blocks until pred(sent) holds or the context ctx ends; it returns
// whether pred held. pred is called with the stream lock held.
func (s *Stream) WaitSent(ctx context.Context, pred func(sent []*pb.SubscribeResponse) bool) bool {
	stop := context.AfterFunc(ctx, func() {
		s.mu.Lock()
		s.cond.Broadcast()
		s.mu.Unlock()
	})
	defer stop()
	s.mu.Lock()
	defer s.mu.Unlock()
	for {
		if pred(s.sent) {
			return true
		}
		if ctx.Err() != nil {
			return false
		}
		s.cond.Wait()
	}
}

// Context implements grpc.ServerStream.
func (s *Stream) Context() context.Context { return s.ctx }

// SetHeader implements grpc.ServerStream.
func (s *Stream) SetHeader(metadata.MD) error { return nil }

// SendHeader implements grpc.ServerStream.
func (s *Stream) SendHeader(metadata.MD) error { return nil }

// SetTrailer implements grpc.ServerStream.
func (s *Stream) SetTrailer(metadata.MD) {}

// SendMsg implements grpc.ServerStream.
func (s *Stream) SendMsg(m interface{}) error { return s.Send(m.(*pb.SubscribeResponse)) }

// RecvMsg implements grpc.ServerStream.
func (s *Stream) RecvMsg(m interface{}) error {
	r, err := s.Recv()
	if err != nil {
		return err
	}
	proto.Merge(m.(proto.Message), r)
	return nil
}
