#!/usr/bin/env python3
"""Imports the output of an independent seed agent (/tmp/seed/<ID>-out/mN) into /verif/seeded/<ID>-mN."""
import json, os, re, shutil, glob, sys
def imp(ID):
    rnd = ''
    if ':' in ID:
        ID, rnd = ID.split(':')   # e.g. C04:2 imports /tmp/seed/C04-out2/mN as C04-r2mN
    for m in sorted(glob.glob('/tmp/seed/%s-out%s/m*' % (ID, rnd))):
        if not os.path.exists(m + '/meta.json'): continue
        name = '%s-%s%s' % (ID, ('r%s' % rnd) if rnd else '', os.path.basename(m))
        d = '/verif/seeded/' + name
        os.makedirs(d, exist_ok=True)
        meta = json.load(open(m + '/meta.json'))
        shutil.copy(m + '/patch.diff', d + '/patch.diff')
        demo = os.path.basename(meta['demo_file'])
        src = [f for f in os.listdir(m) if f.endswith('_test.go')]
        shutil.copy(m + '/' + src[0], d + '/' + demo)
        meta['origin'] = 'independent sub-agent given only the property text and a scratch worktree (nothing from /verif)' + ('; round %s: also given the titles of the earlier changes to avoid repeating them' % rnd if rnd else '')
        if ID.startswith('X'):
            meta['origin'] = 'independent sub-agent (cross-cutting round) given the twenty property statements, the titles of earlier seeded changes, a focus and a scratch worktree (nothing from /verif)'
        # the demonstration must run in the worktree made here, not in the agent's
        meta['demo_cmd'] = re.sub(r'cd /tmp/seed/\w+ *(&&|;) *', '', meta.get('demo_cmd', ''))
        meta.setdefault('checks_expected_to_fire', [meta['property']])
        json.dump(meta, open(d + '/meta.json', 'w'), indent=1)
        print('imported', name, '-', meta.get('title'))
for ID in sys.argv[1:]: imp(ID)
