#!/usr/bin/env python3
"""Regenerates the seeded-change detection table in DESIGN.md (between the two marker lines)."""
import json, os, re
ROOT = os.path.dirname(os.path.dirname(os.path.abspath(__file__)))
rows = []
for seed in sorted(os.listdir(os.path.join(ROOT, "seeded")), key=lambda s: (0 if s.startswith("revert") else (2 if s.startswith("X") else 1), s)):
    d = os.path.join(ROOT, "seeded", seed)
    if not os.path.exists(os.path.join(d, "meta.json")): continue
    meta = json.load(open(os.path.join(d, "meta.json")))
    res = json.load(open(os.path.join(d, "result.json"))) if os.path.exists(os.path.join(d, "result.json")) else {}
    title = meta.get("title", "").replace("|", "\\|")
    if len(title) > 150: title = title[:147] + "..."
    fired = ["%s (%s)" % (k.split(":")[0] + (" thorough" if k.endswith("thorough") else ""), ", ".join(s.replace("|", "\\|")[:70] for s in v["signatures"][:2])) for k, v in sorted(res.items()) if v["fired"]]
    missed = [k.split(":")[0] + (" thorough" if k.endswith("thorough") else "") for k, v in sorted(res.items()) if not v["fired"]]
    own = meta["property"]
    caught_by_own = any(k.startswith(own + ":") and v["fired"] for k, v in res.items())
    note = meta.get("verdict_note", "")
    status = "caught" if caught_by_own else ("caught by another check" if fired else "MISSED")
    if meta.get("obsolete"): status = "obsolete"
    cell = "; ".join(fired) if fired else ""
    if missed and len(missed) <= 4: cell += ("; " if cell else "") + "not fired: " + ", ".join(missed)
    elif missed: cell += ("; " if cell else "") + "not fired: %d other checks (full matrix run)" % len(missed)
    if note: cell += " — " + note.replace("|", "\\|")
    rows.append("| %s | %s | %s | %s | %s |" % (seed, own, title, status, cell))
table = "| seeded change | property | what was changed | status | checks (quick tier unless noted) and signatures |\n|---|---|---|---|---|\n" + "\n".join(rows)
p = os.path.join(ROOT, "DESIGN.md")
s = open(p).read()
a, b = "<!-- seeded-table:begin -->", "<!-- seeded-table:end -->"
assert a in s and b in s
s = s[:s.index(a) + len(a)] + "\n" + table + "\n" + s[s.index(b):]
open(p, "w").write(s)
n = len(rows); c = sum("| caught |" in r for r in rows); o = sum("caught by another" in r for r in rows)
ob = sum("| obsolete |" in r for r in rows)
print("rows:", n, "caught by own check:", c, "by another:", o, "obsolete:", ob, "missed:", n - c - o - ob)
