#!/usr/bin/env python3
"""Regenerates /verif/MANIFEST.json from the table below (kept in one place so
the manifest stays valid while checks are added)."""
import json, os, subprocess
ROOT = os.path.dirname(os.path.dirname(os.path.abspath(__file__)))
props = [json.loads(l)["id"] for l in open(os.path.join(ROOT, "properties.jsonl"))]

# id -> (technique, level text, level note, design ref)
CHECKS = {
 "C09": ("reference-model differential monitor over exhaustive + random operation histories on the real ctree.Tree",
         "Every operation of every explored history is executed on the real tree and on a prefix-free-map model and the whole observable state (Walk, WalkSorted, wildcard queries, point lookups) plus the operation's own result is compared after every step. Exhaustive for all histories up to length 4 (5 thorough) over a 23-operation alphabet, seeded random beyond. Held = held on those executions.",
         "model.Tree is the specification (one trailing glob may match a leaf one element above); single goroutine; GetLeaf on a branch path is not required to be nil (relied on by the cache).",
         "3/C09"),
}
NOT_YET = "check not built yet in this round (work in progress); see DESIGN.md section 3"

checks, na = [], []
for p in props:
    if p in CHECKS and os.path.isdir(os.path.join(ROOT, "harness", "cmd", p.lower())):
        tech, text, note, ref = CHECKS[p]
        checks.append({
            "property_id": p,
            "quick_cmd": "./check %s quick" % p,
            "thorough_cmd": "./check %s thorough" % p,
            "evidence_file": "/verif/evidence/%s.json" % p,
            "replay_cmd_template": "./check %s --replay {path}" % p,
            "engine": "harness/cmd/%s" % p.lower(),
            "level_claimed": {"category": "exploration", "text": text, "design_ref": "DESIGN.md " + ref},
            "level_note": note,
            "technique": tech,
        })
    else:
        na.append({"property_id": p, "reason": NOT_YET})

hooks = subprocess.check_output(["git", "-C", "/repo", "log", "--format=%h", "--grep=^verif:"]).decode().split()
m = {
 "version": 1,
 "setup_cmd": "./tools/setup.sh",
 "hooks": {
  "guard": "verif (Go build tag)",
  "enable": "go build -tags verif (done by ./check for every harness binary; the harness module replaces github.com/openconfig/gnmi with /repo)",
  "baseline_off_cmd": "cd /repo && GOFLAGS=-mod=mod GOPROXY=off GOSUMDB=off GOTOOLCHAIN=local go test -json -vet=off -count=1 -timeout 25m ./...",
  "source_commits": hooks,
  "add_only": True,
 },
 "engines": [{"name": c["engine"], "path": "/verif/" + c["engine"], "serves_properties": [c["property_id"]], "kind_free_text": c["technique"]} for c in checks],
 "checks": checks,
 "not_applicable": na,
 "notes": "All checks are runtime monitors over executions of the real code of /repo (see DESIGN.md). ./check <ID> quick|thorough rebuilds the harness binary against /repo's working tree with -tags verif on every invocation.",
}
json.dump(m, open(os.path.join(ROOT, "MANIFEST.json"), "w"), indent=1)
print("checks:", [c["property_id"] for c in checks], "not claimed:", len(na))
