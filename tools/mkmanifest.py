#!/usr/bin/env python3
"""Regenerates /verif/MANIFEST.json from the table below (kept in one place so
the manifest stays valid while checks are added)."""
import json, os, subprocess
ROOT = os.path.dirname(os.path.dirname(os.path.abspath(__file__)))
props = [json.loads(l)["id"] for l in open(os.path.join(ROOT, "properties.jsonl"))]

# id -> (technique, level text, level note, design ref)
CHECKS = {
 "C01": ("end-to-end state monitor over the real binaries (scripted TLS targets -> gnmi_collector process -> client library + gnmi_cli processes) against an independent model of each target's final state",
         "The real gnmi_collector and gnmi_cli are built from the working tree and run as child processes. 1-3 scripted TLS targets stream generated updates/deletes (all scalar arms, 1-3 list keys, deprecated encoding, origins empty/openconfig/custom, prefix/path splits, multi-update notifications, a sync, then a nonce sentinel); after logical quiescence the CacheClient view of every per-target and '*' STREAM subscriber and the output of gnmi_cli ONCE (group and single display, invoked by flags, -proto and -proto_file) must equal the model exactly, every streamed value must be one the target held, and each target must have received its configured request with the target stamped in. Held on the scenarios generated; the known finding D19 (origin carried in the update path) is reproduced in its own mode and classified only when the view equals exactly the origin-ignored state.",
         "Model = generator's own record of Go scalars per index path; quiescence by sentinel; a sentinel unseen 30 s after the target handed it to the transport is an attributable violation, otherwise inconclusive; meta/ subtree excluded; no atomic notifications; tunnel targets and collector restarts out of reach.",
         "3/C01"),
 "C17": ("replay monitor (shadow driven by handler calls) with an independent acceptability oracle over exhaustive small-scope and random mutation sequences of loads",
         "Every Load / NewConfigWithBase of every explored sequence runs on the real target.Config. An independent oracle recomputes acceptability (documented validity conditions + strictly greater revision), replays the Add/Update/Delete handler calls onto a shadow map that must equal the loaded configuration's {name -> (target, resolved request)}, requires silence for unchanged targets and rejected loads, compares Current() after every step and checks that Current() is a deep copy and the caller's objects stay unmodified. Exhaustive for all sequences of <= 3 loads over 55 configurations (thorough: 73, plus all 4-load sequences over 31), with and without a base; seeded random mutation sequences of 2-12 loads beyond. Held = held on those executions.",
         "Validity conditions and 'unchanged' (equal deterministic wire encoding of target and resolved request) are the specification; several calls for one changed target are tolerated if the replay is disciplined and converges; each load passes a fresh object not modified afterwards; single goroutine; handlers do not call back into the Config.",
         "3/C17"),
 "C19": ("generated-input reference-model differential with 32x repetition for map order and an exhaustive pair relation over a value pool",
         "Differential monitoring of the real path.ToStrings, path.CompletePath, the gnmi client's query -> SubscribeRequest conversion followed by wire marshal/unmarshal and server-side indexing, and value.FromScalar/ToScalar/Equal against small specifications: 10^5 (thorough 10^6) generated paths each evaluated 32 times and on deep clones, 2x10^5 (2x10^6) plain query paths, 22 Go scalar kinds, and ALL ordered pairs of a pool of 120 (600) TypedValues covering every oneof arm, no arm and nil (total, symmetric, sound). Held on everything explored except the known finding D18 (last query element ending in '/'), which is classified only when exactly that element is lost.",
         "Trusts model.IndexPath/IndexPrefix and the DESIGN definition of a plain element; proto marshal/unmarshal stands for the wire; Equal judged for totality, symmetry and soundness only; map-order independence explored by repetition.",
         "3/C19"),
 "C02": ("reference-model differential monitor (virtual clock) over exhaustive small-scope plus seeded random notification histories on the real cache",
         "Every notification of every explored history is executed on a real cache.Cache with a virtual clock (cache.Now) and on a model of the timestamp discipline; the class of the returned error and the whole content of every target (path, timestamp, stored message) are compared after every step. Exhaustive for all histories up to length 4 (5 thorough) over a 22-operation alphabet (2 paths x 3 timestamps x 2 values; exact, subtree and wildcard deletes; Reset) under 4 configurations and one operation shorter under 8 more (future threshold/clock, event-driven emulation, both path encodings); seeded random histories of 30/60 notifications beyond (keyed paths, atomic containers, multi-update notifications, re-adds, two targets, far-future stamps). Held = held on those executions.",
         "Model is the specification: identical = proto.Equal on the stored message; latest = greatest timestamp of accepted non-metadata calls since the last Reset, advanced after the call; the future clause applies only to strictly newer updates to existing leaves; delete matching = model.MatchQ. Single goroutine; positive timestamps; prefix-free path sets.",
         "3/C02"),
 "C14": ("multi-target before/after differential with feed replay and stream trace monitor over seeded histories",
         "Seeded histories of updates, deletes, lifecycle calls, Reset, Remove, Add over 2-4 targets with identical path sets run on the real cache with a real subscribe.Server attached to its feed. After every operation addressed to one target every other target's existence, leaves (wire bytes of stored notifications) and Metadata() values are compared with their state before it; Reset, Remove and re-Add post-conditions, the feed entries of each call, and the responses and final status of single-target and '*' STREAM subscribers are judged after every step. Held = held on those histories.",
         "Single writer goroutine with a virtual clock; subscribers attach between operations and are synced before the history continues; end of stream decided by events only (probe entry through Server.Update; watchdog yields inconclusive); latestTimestamp, size and latency not asserted after Reset; trusted: model.Shadow/MatchQ replay and vlib.Stream.",
         "3/C14"),
 "C03": ("replay trace monitor (shadow driven by the change feed) plus differential twin cache over seeded histories with aliased prefix objects",
         "Every call of each explored history runs on the real cache; the notifications handed to the SetClient callback are replayed onto a shadow that must equal Query after every call, with suppressed-counter accounting, justified withholding (rejected, or unchanged value under event-driven emulation), atomic wholeness, caller-message and shared-prefix backing-array immutability, and stability of retained delete leaves; a twin cache receives every multi notification split into singles (multi = sequence). Histories mix single/multi/atomic/wildcard-delete notifications, Reset/Remove/Add over 2-3 targets, emulation on/off, built from a pool of shared prefix objects with spare capacity; separate modes add mixed path encodings, path-level origins (known finding, same root cause as D19) and atomic<->scalar kind flips. Held = held on those seeded histories.",
         "Consumer index rule = subscribe.Update's; 'unchanged' judged with proto.Equal on the TypedValue; single goroutine, virtual clock, no future threshold; Add only for absent targets; suppressed count read from the target's own counter.",
         "3/C03"),
 "C20": ("online stream monitor, same-seed replay differential and endpoint-versus-queue differential over generated fake-target configurations",
         "On seeded random fake-target configurations every value emitted by the real UpdateQueue is judged online for timestamp order, exact repeat count, range/list/constant membership, timestamp-delta bounds and sync placement, to exhaustion or 1000 steps; sequences from a deep clone and from the reused config object with the same non-zero seed are proto.Equal-identical; documented-invalid settings produce an error, never a generated value; for a subset the responses of the real fake Client (in memory) and Agent (loopback gRPC) equal the queue's own sequence with exactly one sync after every value's first emission; FixedQueue delivers exactly its list. Held = held on those configurations.",
         "A value is identified by its unique path; magnitudes below 2^62, finite doubles; unbounded repeat decided as bounded progress within the horizon; cumulative value-delta semantics counted as a diagnostic only; agent listen/dial failures are inconclusive.",
         "3/C20"),
 "C04": ("trace monitor over in-memory Subscribe streams with schedule perturbation at verif points; replay-vs-cache oracle at logical quiescence",
         "Real cache + subscribe.Server driven by one writer goroutine per target (updates with unique values, leaf/subtree deletes, re-adds, Resets) while 2-6 STREAM subscriptions start at seeded moments under seeded delays / long holds at 7 schedule points and GOMAXPROCS 2/4/16. Every subscriber's exact response sequence is judged: exactly one sync (first for updates_only), every leaf present before the call and never deleted precedes the sync, values received were written and never go backwards, and replaying the responses equals the cache's matching content once a sentinel protocol establishes logical quiescence. Held = held on the interleavings produced; the evidence counts writes that landed in each registration/walk window.",
         "One writer per target; subscription path shapes chosen so that streaming compatibility and query selection coincide; schedules perturbed, not enumerated; a sentinel undelivered for 40 s on an idle system counts as a violation.",
         "3/C04"),
 "C10": ("Go race detector (deciding) + porcupine linearizability checking of recorded histories (per path and whole tree) + interval checker for queries + deadlock watchdog",
         "Concurrent histories on the real ctree.Tree recorded at the harness boundary (atomic tick clock, unique values): per-path linearizability of Add/Get/Query/Delete/handle-update against a register-with-absence model incl. quiescent final reads (porcupine, partitioned), whole-tree linearizability of small histories with prefix conflicts and subtree/wildcard/conditional deletes (porcupine, unpartitioned), an interval checker for Query/Walk/WalkSorted (present-throughout => reported, absent-throughout => not reported, values were written, no duplicates, sorted), a forced reader->writer upgrade window every third trial, and the race detector over a hostile all-operations workload; any race report whose access site is in ctree/tree.go is a violation.",
         "Schedules explored by perturbation/gating and GOMAXPROCS variation, not enumerated; handle updates only on paths not deleted in that trial (detached-handle updates are unspecified); porcupine timeout => inconclusive.",
         "3/C10"),
 "C07": ("trace-specification monitor (safety on Send) plus twin and cache differential for completeness",
         "Every response passed to Send on thousands of in-memory Subscribe streams per run is judged online against a scripted user x target ACL while writers update, delete, Reset and Remove/re-Add allowed and denied targets (snapshot updates, streamed updates, deletes, Reset deletes and target-removal deletes are judged separately and all must have been exercised). Denied single-target calls must be silent with PermissionDenied (NotFound accepted only when a Remove overlapped the call); calls whose NewRPCACL fails must be silent with Unauthenticated. Authorised data must still arrive: replay equals the cache restricted to the allowed targets and equals an unrestricted twin's log at logical quiescence, and on a static cache for ONCE and POLL. Held on the executions produced (seeded workloads, schedule perturbation at 7 points, GOMAXPROCS 2/4/16).",
         "ACL table constant within a trial; one writer per target; trusted: vlib.Stream, model.Shadow/Compat, C04's sentinel quiescence protocol; sync placement, value order and POLL round counts belong to C04/C05.",
         "3/C07"),
 "C11": ("model differential (exhaustive and random) plus a concurrent history monitor with gated schedule points",
         "Every sequence of up to 7 (thorough 8) Insert/Next/Close/Len/IsClosed operations and 20k-200k longer seeded histories are checked result by result against a reference model of the coalescing queue. 5k-40k concurrent trials with several producers and one consumer (call/return ticks at the harness boundary) plus 8k-48k forced-window trials gated at the two coalesce schedule points are judged on exact conservation per item (B <= sum(1+dups) <= A), real-time order of first insertions, refusal after Close, closed reported only after everything owed was delivered, and bounded wake-up after insert, close and cancel. Held = held on those executions.",
         "One consumer at a time; an Insert overlapping Close may be accepted and never delivered; wake-up judged as bounded progress (10 s grace, attributable stuck only); schedules perturbed at two hook points and by GOMAXPROCS, not enumerated; race workers (thorough) are diagnostic only.",
         "3/C11"),
 "C13": ("online trace-grammar monitor (per-target state machine) over the real manager + connection manager against a scripted bufconn gNMI server with fault scripts",
         "The real manager.Manager over the real connection.Manager talks to a scripted gNMI server on bufconn: per target 3-8 sessions of 0-20 numbered messages ending in error / EOF / silence, dial refusals, receive timeouts, forced Reconnect and Remove+re-Add at seeded message indexes and during backoff, duplicate Add and unknown Remove/Reconnect. Every callback, connection attempt and stream opening feeds an online state machine: Connect only after the first message of a new stream, deliveries only in session and an in-order prefix of what that stream carried, exactly one Reset per ended stream before the next stream, backoff between attempts (one-sided), bounded retry progress, and no event after Remove returned.",
         "Retry delays 20/40 ms; liveness restated as bounded progress (40 s grace, attributed by goroutine dump); silence observed for a 60 ms settling window; spurious reconnects tolerated as the statement allows.",
         "3/C13"),
 "C05": ("reference-model differential plus trace monitor over an interactive in-memory gRPC stream, with seeded schedule perturbation",
         "On every execution produced, ONCE and every POLL round (triggers handed to the stream only after the previous sync was observed) delivered exactly the model's matching set with the leaves' current notifications, exactly one trailing sync per round, a nil final status, and nothing after a sync or after the end; under concurrent writers every leaf present for the whole round was delivered, every value sent was one the leaf held between round start and send, and nothing non-matching was sent. Runs comprise an exhaustive sweep of glob, prefix/path split, origin and target placements over a small tree (about 11.8k RPCs), 4000 (thorough 100000) random contents and path sets with sequential cache changes between poll rounds, and 200 (3000) concurrent-writer trials.",
         "'Matching' = CompletePath's origin placement, the index form of keyed elements and model.MatchQ; over-delivery (a leaf selected by overlapping paths sent more than once) is counted, not a violation ('at least once'); valid data only, origins in the prefix; one writer per target in concurrent mode; non-termination judged by a 20 s attributable-stuck rule.",
         "3/C05"),
 "C06": ("exhaustive small-scope + seeded-random model differential on the real match trie / UpdateNotification / Server.Subscribe with counting clients",
         "Every (query, path) pair over {a,b,*}^<=4 is pushed through the real match trie (Update, UpdateOnce, UpdateNotification) and 'offered' is compared with the compatibility relation of the statement; ctree.Query results are checked to be contained and streamed; every query set of size <= 2 is checked for at-most-once delivery against exhaustive single/multi update/delete notification shapes; seeded random subscribe/unsubscribe/update histories are compared with a model registry (removal, idempotence, sibling clients, re-add, caller-reused query slices); the server's own subscription path construction is driven through the real Server.Subscribe/Server.Update over an in-memory stream and compared with Compat on the index path, with path.CompletePath's snapshot path and with a census of the trie after the RPCs ended; a concurrent mode dispatches from 2-4 goroutines while clients unsubscribe and checks on an atomic tick clock that no offer to a client begins after its remove function returned. Held = held on those executions.",
         "model.Compat/IndexPath/IndexPrefix are the specification; plain Update judged for offered/not offered only; ambiguous re-registration histories excluded; the end-of-RPC census uses read-only reflection (availability recorded in the counters; skipped, never a violation, when unavailable); single goroutine at the match level except the concremove mode (schedules not enumerated).",
         "3/C06"),
 "C09": ("reference-model differential monitor over exhaustive + random operation histories on the real ctree.Tree",
         "Every operation of every explored history is executed on the real tree and on a prefix-free-map model and the whole observable state (Walk, WalkSorted, wildcard queries, point lookups) plus the operation's own result is compared after every step. Exhaustive for all histories up to length 4 (5 thorough) over a 24-operation alphabet (incl. a stored element literally named '*'), seeded random beyond. Held = held on those executions.",
         "model.Tree is the specification (one trailing glob may match a leaf one element above); single goroutine; GetLeaf on a branch path is not required to be nil (relied on by the cache).",
         "3/C09"),
}
NOT_YET = "check not built yet in this round (work in progress); see DESIGN.md section 3"

checks, na = [], []
for p in props:
    if p in CHECKS and os.path.isdir(os.path.join(ROOT, "harness", "cmd", p.lower())):
        tech, text, note, ref = CHECKS[p]
        checks.append({
            "property_id": p,
            "quick_cmd": "./check %s quick" % p,
            "thorough_cmd": "./check %s thorough" % p,
            "evidence_file": "/verif/evidence/%s.json" % p,
            "replay_cmd_template": "./check %s --replay {path}" % p,
            "engine": "harness/cmd/%s" % p.lower(),
            "level_claimed": {"category": "exploration", "text": text, "design_ref": "DESIGN.md " + ref},
            "level_note": note,
            "technique": tech,
        })
    else:
        na.append({"property_id": p, "reason": NOT_YET})

hooks = subprocess.check_output(["git", "-C", "/repo", "log", "--format=%h", "--grep=^verif:"]).decode().split()
m = {
 "version": 1,
 "setup_cmd": "./tools/setup.sh",
 "hooks": {
  "guard": "verif (Go build tag)",
  "enable": "go build -tags verif (done by ./check for every harness binary; the harness module replaces github.com/openconfig/gnmi with /repo)",
  "baseline_off_cmd": "cd /repo && GOFLAGS=-mod=mod GOPROXY=off GOSUMDB=off GOTOOLCHAIN=local go test -json -vet=off -count=1 -timeout 25m ./...",
  "source_commits": hooks,
  "add_only": True,
 },
 "engines": [{"name": c["engine"], "path": "/verif/" + c["engine"], "serves_properties": [c["property_id"]], "kind_free_text": c["technique"]} for c in checks],
 "checks": checks,
 "not_applicable": na,
 "notes": "All checks are runtime monitors over executions of the real code of /repo (see DESIGN.md). ./check <ID> quick|thorough rebuilds the harness binary against /repo's working tree with -tags verif on every invocation.",
}
json.dump(m, open(os.path.join(ROOT, "MANIFEST.json"), "w"), indent=1)
print("checks:", [c["property_id"] for c in checks], "not claimed:", len(na))
