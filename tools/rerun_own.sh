#!/bin/bash
# re-run the own-property check for every seed of the given properties
cd /verif
for p in "$@"; do
  for d in seeded/*/; do
    n=$(basename $d)
    prop=$(python3 -c "import json;print(json.load(open('$d/meta.json'))['property'])")
    obs=$(python3 -c "import json;m=json.load(open('$d/meta.json'));print(1 if m.get('obsolete') or 'missed by design' in m.get('verdict_note','') else 0)")
    if [ "$prop" = "$p" ] && [ "$obs" = "0" ]; then
      python3 tools/seeded.py run $n quick $p 2>&1 | tail -1
    fi
  done
done
