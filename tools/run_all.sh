#!/bin/bash
# Runs every registered check once on /repo: tools/run_all.sh [quick|thorough] [seed]
cd "$(dirname "$0")/.."
tier=${1:-quick}; seed=${2:-1}
ids=$(python3 -c "import json;print(' '.join(c['property_id'] for c in json.load(open('MANIFEST.json'))['checks']))")
fail=0
for id in $ids; do
  out=$(VERIF_SEED=$seed ./check $id $tier 2>&1); rc=$?
  line=$(echo "$out" | grep -E "^$id $tier" | head -1)
  echo "rc=$rc $line"
  if [ $rc -ne 0 ]; then fail=1; echo "$out" | grep -E "VIOLATION|BROKEN|signature|what" | head -8; fi
  echo "$out" | grep -E "INCONCLUSIVE" | head -3
done
exit $fail
