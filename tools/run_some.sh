#!/bin/bash
# Runs the given checks once on /repo: tools/run_some.sh <tier> <seed> <ID>...
cd "$(dirname "$0")/.."
tier=$1; seed=$2; shift 2
fail=0
for id in "$@"; do
  out=$(VERIF_SEED=$seed ./check $id $tier 2>&1); rc=$?
  echo "rc=$rc $(echo "$out" | grep -E "^$id $tier" | head -1)"
  if [ $rc -ne 0 ]; then fail=1; echo "$out" | grep -E "VIOLATION|BROKEN|signature|what" | head -8; fi
  echo "$out" | grep -E "INCONCLUSIVE" | head -3
done
exit $fail
