#!/bin/bash
# usage: batch.sh X9-m1 X9-m2 ...
cd /verif
for s in "$@"; do
  python3 tools/seeded.py suite $s > .work/seed-$s.log 2>&1
  python3 tools/seeded.py matrix $s >> .work/seed-$s.log 2>&1
  tail -1 .work/seed-$s.log
done
