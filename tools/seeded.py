#!/usr/bin/env python3
"""Seeded-change runner.
  tools/seeded.py demo <seed>            confirm the demonstration fails with the patch and passes without
  tools/seeded.py run <seed> [tier] [ID...]   run the checks (default: meta.checks_expected_to_fire) against the patched tree
  tools/seeded.py table                  print the detection table from the stored results
Patched trees are scratch worktrees under /tmp/vwt (removed afterwards); /repo is never touched."""
import json, os, subprocess, sys, shutil, time
ROOT = os.path.dirname(os.path.dirname(os.path.abspath(__file__)))
ENV = dict(os.environ, GOFLAGS="-mod=mod", GOPROXY="off", GOSUMDB="off", GOTOOLCHAIN="local")
BLANK = '''
var (
	_ = reflect.DeepEqual
	_ = sort.Strings
	_ = strings.Join
	_ sync.Mutex
	_ = time.Now
	_ = errors.New
	_ = cache.New
	_ ctree.Tree
	_ = match.New
	_ = metadata.Root
	_ = subscribe.NewServer
	_ = value.Equal
)
'''
def sh(cmd, cwd=None, env=ENV, timeout=3600):
    p = subprocess.run(cmd, shell=True, cwd=cwd, env=env, stdout=subprocess.PIPE, stderr=subprocess.STDOUT, timeout=timeout)
    return p.returncode, p.stdout.decode(errors="replace")
def wt_new(name):
    d = "/tmp/vwt/" + name
    if os.path.exists(d):
        sh("git -C /repo worktree remove --force " + d)
    os.makedirs("/tmp/vwt", exist_ok=True)
    rc, out = sh("git -C /repo worktree add -q --detach %s HEAD" % d)
    assert rc == 0, out
    return d
def wt_rm(name):
    sh("git -C /repo worktree remove --force /tmp/vwt/" + name); sh("git -C /repo worktree prune")
def load(seed):
    d = os.path.join(ROOT, "seeded", seed)
    return d, json.load(open(os.path.join(d, "meta.json")))
def apply(d, wt):
    rc, out = sh("git apply %s/patch.diff" % d, cwd=wt)
    assert rc == 0, "patch does not apply: " + out
def demo(seed):
    d, meta = load(seed)
    wt = wt_new("demo-" + seed)
    try:
        res = {}
        if os.path.exists(os.path.join(d, "demo_test.go")) and "demo_file" not in meta:
            mod = "/tmp/vwt/demo-%s-mod" % seed
            shutil.rmtree(mod, ignore_errors=True); os.makedirs(mod)
            req = subprocess.check_output("sed -n '/^require (/,/^)/p' /repo/go.mod", shell=True).decode()
            open(mod + "/go.mod", "w").write("module wit\n\ngo 1.22.0\n\nrequire github.com/openconfig/gnmi v0.99.0\n\nreplace github.com/openconfig/gnmi => %s\n\n%s" % (wt, req))
            shutil.copy("/repo/go.sum", mod + "/go.sum")
            src = open(os.path.join(d, "demo_test.go")).read()
            if "_ = reflect.DeepEqual" not in src and '"reflect"' in src:
                src += BLANK
            open(mod + "/demo_test.go", "w").write(src)
            cmd, cwd = meta.get("demo_cmd", "go test -count=1 ."), mod
        elif "demo_file" in meta:
            shutil.copy(os.path.join(d, os.path.basename(meta["demo_file"])), os.path.join(wt, meta["demo_file"]))
            cmd, cwd = meta["demo_cmd"], wt
        else:
            print("no runnable demonstration for", seed); return
        rc0, out0 = sh(cmd, cwd=cwd)
        apply(d, wt)
        rcb, outb = sh("go build ./...", cwd=wt)
        rc1, out1 = sh(cmd, cwd=cwd)
        res = {"passes_without_change": rc0 == 0, "builds_with_change": rcb == 0, "fails_with_change": rc1 != 0}
        print(seed, res)
        if rc0 != 0: print(out0[-1500:])
        if rc1 == 0: print(out1[-800:])
        meta["demo_verified"] = res
        json.dump(meta, open(os.path.join(d, "meta.json"), "w"), indent=1)
        shutil.rmtree("/tmp/vwt/demo-%s-mod" % seed, ignore_errors=True)
    finally:
        wt_rm("demo-" + seed)
def suite(seed):
    d, meta = load(seed)
    wt = wt_new("suite-" + seed)
    try:
        apply(d, wt)
        rc, out = sh("go test -vet=off -count=1 -timeout 25m ./...", cwd=wt)
        bad = [l for l in out.splitlines() if l.startswith("FAIL") or l.startswith("--- FAIL")]
        meta["suite_passes_with_change"] = rc == 0
        if bad: meta["suite_failures"] = bad[:10]
        json.dump(meta, open(os.path.join(d, "meta.json"), "w"), indent=1)
        print(seed, "suite passes with change:", rc == 0, bad[:5])
    finally:
        wt_rm("suite-" + seed)
def run(seed, tier="quick", ids=None):
    d, meta = load(seed)
    ids = ids or meta.get("checks_expected_to_fire", [meta["property"]])
    wt = wt_new("run-" + seed)
    results = {}
    try:
        apply(d, wt)
        for cid in ids:
            t0 = time.time()
            rc, out = sh("./check %s %s" % (cid, tier), cwd=ROOT, env=dict(ENV, VERIF_REPO=wt, VERIF_ROOT=""))
            sigs = sorted(set(l.strip().split("signature: ", 1)[1] for l in out.splitlines() if "signature: " in l))
            fired = rc == 1 and "VIOLATION property=" in out
            results[cid] = {"tier": tier, "fired": fired, "exit": rc, "signatures": sigs[:8], "wall_s": round(time.time() - t0, 1)}
            print(seed, cid, tier, "FIRED" if fired else ("exit %d" % rc), sigs[:4])
            if rc not in (0, 1): print(out[-1200:])
    finally:
        wt_rm("run-" + seed)
        # violations found on a mutant are not evidence about /repo: drop their replay files and restore evidence by rerunning later
    rp = os.path.join(d, "result.json")
    old = json.load(open(rp)) if os.path.exists(rp) else {}
    for k, v in results.items():
        old[k + ":" + tier] = v
    json.dump(old, open(rp, "w"), indent=1)
def matrix(seed, tier="quick", par=3):
    """Runs EVERY registered check against the seeded change (3 at a time) and records all results."""
    from concurrent.futures import ThreadPoolExecutor
    d, meta = load(seed)
    ids = [c["property_id"] for c in json.load(open(os.path.join(ROOT, "MANIFEST.json")))["checks"]]
    wt = wt_new("mx-" + seed)
    results = {}
    def one(cid):
        t0 = time.time()
        rc, out = sh("./check %s %s" % (cid, tier), cwd=ROOT, env=dict(ENV, VERIF_REPO=wt))
        sigs = sorted(set(l.strip().split("signature: ", 1)[1] for l in out.splitlines() if "signature: " in l))
        fired = rc == 1 and "VIOLATION property=" in out
        res = {"tier": tier, "fired": fired, "exit": rc, "signatures": sigs[:8], "wall_s": round(time.time() - t0, 1)}
        if rc not in (0, 1):
            res["tail"] = out[-1500:]
        return cid, res
    try:
        apply(d, wt)
        with ThreadPoolExecutor(par) as ex:
            for cid, res in ex.map(one, ids):
                results[cid] = res
                if res["fired"] or res["exit"] not in (0, 1):
                    print(seed, cid, "FIRED" if res["fired"] else "exit %d" % res["exit"], res["signatures"][:3])
    finally:
        wt_rm("mx-" + seed)
    rp = os.path.join(d, "result.json")
    old = json.load(open(rp)) if os.path.exists(rp) else {}
    for k, v in results.items():
        old[k + ":" + tier] = v
    json.dump(old, open(rp, "w"), indent=1)
    print(seed, "fired:", sorted(k for k, v in results.items() if v["fired"]))
def table():
    rows = []
    for seed in sorted(os.listdir(os.path.join(ROOT, "seeded"))):
        d = os.path.join(ROOT, "seeded", seed)
        if not os.path.exists(os.path.join(d, "meta.json")): continue
        meta = json.load(open(os.path.join(d, "meta.json")))
        res = json.load(open(os.path.join(d, "result.json"))) if os.path.exists(os.path.join(d, "result.json")) else {}
        for k, v in sorted(res.items()):
            rows.append("| %s | %s | %s | %s | %s |" % (seed, meta["property"], k, "fired" if v["fired"] else "MISSED", ", ".join(v["signatures"][:3])))
    print("| seeded change | property | check:tier | result | signatures |\n|---|---|---|---|---|")
    print("\n".join(rows))
if __name__ == "__main__":
    c = sys.argv[1]
    if c == "demo": demo(sys.argv[2])
    elif c == "suite": suite(sys.argv[2])
    elif c == "run":
        tier = sys.argv[3] if len(sys.argv) > 3 and sys.argv[3] in ("quick", "thorough") else "quick"
        ids = [a for a in sys.argv[3:] if a not in ("quick", "thorough")]
        run(sys.argv[2], tier, ids or None)
    elif c == "matrix": matrix(sys.argv[2])
    elif c == "table": table()
