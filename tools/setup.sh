#!/bin/bash
# Offline setup after a fresh restore: pre-build every harness binary so the
# first check is not slow. Fetches nothing.
cd "$(dirname "$0")/.."
export GOFLAGS=-mod=mod GOPROXY=off GOSUMDB=off GOTOOLCHAIN=local
mkdir -p .work/bin evidence replay
cd harness
go build -tags verif ./... || exit 1
for d in cmd/*/; do
  id=$(basename "$d")
  go build -tags verif -o "../.work/bin/$id" "./cmd/$id" || exit 1
  if [ -f "cmd/$id/RACE" ]; then go build -race -tags verif -o "../.work/bin/$id.race" "./cmd/$id" || exit 1; fi
done
echo setup-ok
