#!/bin/bash
# Offline setup after a fresh restore: pre-build the harness binary of every
# check registered in MANIFEST.json so the first run is not slow. Fetches nothing.
cd "$(dirname "$0")/.."
export GOFLAGS=-mod=mod GOPROXY=off GOSUMDB=off GOTOOLCHAIN=local
mkdir -p .work/bin evidence replay
ids=$(python3 -c "import json;print(' '.join(c['property_id'].lower() for c in json.load(open('MANIFEST.json'))['checks']))")
cd harness
for id in $ids; do
  go build -tags verif -o "../.work/bin/$id" "./cmd/$id" || exit 1
  if [ -f "cmd/$id/RACE" ]; then go build -race -tags verif -o "../.work/bin/$id.race" "./cmd/$id" || exit 1; fi
done
echo setup-ok
