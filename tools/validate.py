#!/opt/veriftools/pyvenv/bin/python
import json, jsonschema, glob, sys
jsonschema.validate(json.load(open('/verif/MANIFEST.json')), json.load(open('/root/.vp/MANIFEST.schema.json')))
es = json.load(open('/root/.vp/EVIDENCE.schema.json'))
bad = 0
for f in sorted(glob.glob('/verif/evidence/*.json')):
    try:
        jsonschema.validate(json.load(open(f)), es)
    except Exception as e:
        bad += 1; print('INVALID', f, str(e)[:300])
print('manifest valid; evidence files checked:', len(glob.glob('/verif/evidence/*.json')), 'invalid:', bad)
sys.exit(1 if bad else 0)
