#!/opt/veriftools/pyvenv/bin/python
"""Validates MANIFEST.json and the evidence files of the registered checks against the schemas.
Evidence files of checks that are not (yet) registered are reported but do not fail the run."""
import json, jsonschema, glob, sys, os
m = json.load(open('/verif/MANIFEST.json'))
jsonschema.validate(m, json.load(open('/root/.vp/MANIFEST.schema.json')))
es = json.load(open('/root/.vp/EVIDENCE.schema.json'))
registered = {os.path.basename(c['evidence_file']) for c in m['checks']}
bad = 0
files = sorted(glob.glob('/verif/evidence/*.json'))
for f in files:
    try:
        jsonschema.validate(json.load(open(f)), es)
    except Exception as e:
        if os.path.basename(f) in registered:
            bad += 1; print('INVALID', f, str(e)[:300])
        else:
            print('(unregistered) invalid', f, str(e)[:120])
missing = [f for f in registered if not os.path.exists('/verif/evidence/' + f)]
if missing: print('registered checks without evidence file:', missing)
print('manifest valid; evidence files checked:', len(files), 'invalid (registered):', bad)
sys.exit(1 if bad else 0)
