#!/bin/bash
# Scratch worktrees of /repo for mutation runs (outside /repo and /verif).
#   tools/wt.sh new <name>            create /tmp/vwt/<name> at /repo HEAD
#   tools/wt.sh revert <name> <sha>   revert a commit in it (no commit)
#   tools/wt.sh apply <name> <patch>  apply a patch file in it
#   tools/wt.sh reset <name>          drop all changes in it
#   tools/wt.sh rm <name>             remove it
set -e
cmd=$1; name=$2; d=/tmp/vwt/$name
case $cmd in
  new) mkdir -p /tmp/vwt; git -C /repo worktree add -q --detach "$d" HEAD; echo "$d" ;;
  revert) git -C "$d" revert --no-commit "$3" >/dev/null && git -C "$d" reset -q ;;
  apply) git -C "$d" apply "$3" ;;
  reset) git -C "$d" reset -q --hard HEAD ;;
  rm) git -C /repo worktree remove --force "$d"; git -C /repo worktree prune ;;
esac
